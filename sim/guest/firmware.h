// Firmware-like guest programs for the facade scenarios: reset vector, four interrupt handlers,
// peripheral programming and an idle loop. A program is a pure function of the plan's knobs.
#pragma once
#include "../core/box.h"
#include "asm.h"

namespace sim {

constexpr u16 MMIO = 0x8000; // default window base
constexpr u32 FW_INIT = 0x0100, FW_H0 = 0x0200, FW_H1 = 0x0240, FW_H2 = 0x0280, FW_HV = 0x02C0, FW_STACK = 0x0F00;

struct FwConfig {
    u16 mod3 = 0x0780; // ie | im0 | im1 | im2
    u16 en[3] = {0, 0, 0};
    u16 env = 0;
    u16 vctx = 0; // context-switch bit of the vectored entry (same for all irqs)
    u16 tcfg[2] = {0, 0};
    u32 tstart[2] = {0, 0};
    bool bt_enable = false;
    int bt_words = 0;
    bool bt1_enable = false; // second audio port: no audio callback in the facade, but flags and IRQ 0xC
    int bt1_words = 0;
    int busy = 0;
    int main_kind = 0; // 0: idle (brr -1)  1: busy loop (inc a0; brr -2)  2: eint then idle
    u16 hact[4] = {0, 0, 0, 0};
    u16 hparam[4] = {0, 0, 0, 0};
    u32 idle_addr = 0; // filled by build
};

// handler action bits
enum : u16 { HA_RESTART_T0 = 1, HA_AUDIO = 2, HA_REPLY = 4, HA_ACK = 8, HA_TRIGGER = 16, HA_IDLE_INSIDE = 32, HA_RESTART_T1 = 64,
             HA_EINT = 128, HA_EVENT = 256, HA_DMA = 512, HA_EINT_FIRST = 1024 };

inline u16 timer_cfg_word(int mode, bool pause, bool mu, bool restart) {
    return (u16)((mode & 7) << 2 | (pause ? 1 : 0) << 8 | (mu ? 1 : 0) << 9 | (restart ? 1 : 0) << 10);
}

inline void fw_from_plan(const Plan& p, FwConfig& c) {
    c.mod3 = (u16)p.knob("mod3", 0x0780);
    for (int i = 0; i < 3; ++i)
        c.en[i] = (u16)p.knob("en" + std::to_string(i), 0);
    c.env = (u16)p.knob("env", 0);
    c.vctx = (u16)p.knob("vctx", 0);
    for (int i = 0; i < 2; ++i) {
        c.tcfg[i] = (u16)p.knob("t" + std::to_string(i) + "cfg", 0);
        c.tstart[i] = (u32)p.knob("t" + std::to_string(i) + "start", 0);
    }
    c.bt_enable = p.knob("bt_en", 0) != 0;
    c.bt_words = (int)p.knob("bt_words", 0);
    c.bt1_enable = p.knob("bt1_en", 0) != 0;
    c.bt1_words = (int)p.knob("bt1_words", 0);
    c.busy = (int)p.knob("busy", 0);
    c.main_kind = (int)p.knob("main", 0);
    for (int i = 0; i < 4; ++i) {
        c.hact[i] = (u16)p.knob("h" + std::to_string(i) + "act", 0);
        c.hparam[i] = (u16)p.knob("h" + std::to_string(i) + "par", 0);
    }
}

inline void fw_build(FwConfig& c, Asm& a) {
    a.org(0x0000).br(FW_INIT);
    // the instruction AT the vector address is either the branch to the handler or, with HA_EINT_FIRST, an `eint`: the handler is
    // interruptible from its very first boundary on, also by a second request of the same line
    const u32 haddr[4] = {FW_H0, FW_H1, FW_H2, FW_HV};
    for (int h = 0; h < 3; ++h) {
        a.org(0x0006 + 8 * (u32)h);
        if (c.hact[h] & HA_EINT_FIRST)
            a.w(op::EINT);
        a.br(haddr[h]);
    }
    for (int h = 0; h < 4; ++h) {
        a.org(haddr[h]);
        if (h == 3 && (c.hact[h] & HA_EINT_FIRST))
            a.w(op::EINT);
        a.w(op::INC_A1);
        u16 act = c.hact[h], par = c.hparam[h];
        if (act & HA_EINT)
            a.w(op::EINT); // nested interrupts
        if (act & HA_EVENT)
            a.store_imm(MMIO + 0x22, 1); // event write (counts only in event-count mode)
        if (act & HA_DMA)
            a.store_imm(MMIO + 0x1DE, 0x40C0); // start the DMA channel the host prepared (DSP -> external memory)
        if (act & HA_RESTART_T0)
            a.store_imm(MMIO + 0x20, (u16)(c.tcfg[0] | 0x400));
        if (act & HA_RESTART_T1)
            a.store_imm(MMIO + 0x30, (u16)(c.tcfg[1] | 0x400));
        if (act & HA_AUDIO) {
            u16 port = (u16)(MMIO + 0x2C6 + ((par >> 9) & 1) * 0x80); // either audio port
            a.store_imm(port, (u16)(0x1000 + h * 0x100 + (par & 0xFF)));
            a.store_imm(port, (u16)(0x2000 + h * 0x100 + (par & 0xFF)));
        }
        if (act & HA_REPLY)
            a.store_imm((u16)(MMIO + 0x0C0 + 4 * (par % 3)), (u16)(0xA000 + h));
        if (act & HA_ACK)
            a.store_imm(MMIO + 0x202, (u16)(0x5E00)); // acknowledge irq 9,10,11,12,14
        if (act & HA_TRIGGER)
            a.store_imm(MMIO + 0x204, (u16)(1u << (9 + (par >> 8) % 3)));
        if (act & HA_IDLE_INSIDE) {
            a.idle();
        }
        bool ctx = h < 3 ? ((c.mod3 >> (1 + h)) & 1) : (c.vctx & 1);
        a.w(ctx ? op::RETIC : op::RETI);
    }
    a.org(FW_INIT);
    a.mov_imm(op::SP, (u16)FW_STACK);
    a.mov_imm_sttmod(op::MOD3, (u16)(c.main_kind == 2 ? (c.mod3 & ~0x80) : c.mod3));
    for (int i = 0; i < c.busy; ++i)
        a.w(op::INC_A0);
    if (c.main_kind == 2)
        a.w(op::EINT);
    if (c.main_kind == 3) { // a repeat and a block repeat before going idle
        a.rep_imm(17);
        a.w(op::INC_A0);
        u32 start = a.at + 2;
        a.bkrep_imm(5, start + 1);
        a.w(op::INC_A0);
        a.w(op::DEC_A1);
    }
    if (c.main_kind == 5 || c.main_kind == 6) {
        // a conditional self-branch that is NOT taken (the condition is false), followed by observable work, then the idle
        // loop proper; main 6 ends in a conditional self-branch that IS taken (an idle loop with a condition)
        a.w(op::CLR_A0);                       // a0 = 0: zero flag set
        a.brr(-1, 2);                          // brr -1, neq: not taken
        for (int i = 0; i < 3; ++i)
            a.w(op::INC_A0);
        a.w(op::INC_A1);
        a.brr(-1, 1);                          // brr -1, eq: not taken any more (a0 != 0)
        a.w(op::INC_A0);
    }
    if (c.main_kind == 6) {
        a.w(op::CLR_B0);                       // zero flag set again
        c.idle_addr = a.at;
        a.brr(-1, 1);                          // brr -1, eq: taken -> idles
        a.w(op::INC_A0);
        a.idle();
    } else if (c.main_kind == 1) {
        a.w(op::INC_A0);
        a.brr(-2);
        c.idle_addr = 0xFFFFFFFF;
    } else if (c.main_kind == 4) { // never idle: a block repeat inside an endless loop
        u32 loop = a.at;
        u32 start = a.at + 2;
        a.bkrep_imm(3, start + 1);
        a.w(op::INC_A0);
        a.w(op::INC_A0);
        a.br(loop);
        c.idle_addr = 0xFFFFFFFF;
    } else {
        c.idle_addr = a.at;
        a.idle();
    }
}

// host-side programming of ICU, timers and the audio port (all ICU registers are written so that no
// observation depends on constructor-undefined state)
inline void fw_host_setup(Box& b, const FwConfig& c) {
    auto& t = *b.t;
    t.MMIOWrite(0x206, c.en[0]);
    t.MMIOWrite(0x208, c.en[1]);
    t.MMIOWrite(0x20A, c.en[2]);
    t.MMIOWrite(0x20C, c.env);
    for (u16 i = 0; i < 16; ++i) {
        t.MMIOWrite((u16)(0x212 + i * 4), (u16)(((FW_HV >> 16) & 3) | (c.vctx ? 0x8000 : 0)));
        t.MMIOWrite((u16)(0x214 + i * 4), (u16)(FW_HV & 0xFFFF));
    }
    for (int i = 0; i < 2; ++i) {
        t.MMIOWrite((u16)(0x24 + i * 0x10), (u16)(c.tstart[i] & 0xFFFF));
        t.MMIOWrite((u16)(0x26 + i * 0x10), (u16)(c.tstart[i] >> 16));
        t.MMIOWrite((u16)(0x20 + i * 0x10), (u16)(c.tcfg[i] | 0x400)); // configure + restart
    }
    for (int i = 0; i < c.bt_words; ++i)
        t.MMIOWrite(0x2C6, (u16)(0x100 + i));
    t.MMIOWrite(0x2BE, c.bt_enable ? 1 : 0);
    // DMA channel 0: two words from data 0x0A00 to external memory through AHBM channel 0 (handlers may start it)
    t.MMIOWrite(0x1BE, 0);
    t.MMIOWrite(0x1C0, 0x0A00);
    t.MMIOWrite(0x1C2, 0);
    t.MMIOWrite(0x1C4, 0x0100);
    t.MMIOWrite(0x1C6, 0x2000);
    t.MMIOWrite(0x1C8, 2);
    t.MMIOWrite(0x1CA, 1);
    t.MMIOWrite(0x1CC, 1);
    t.MMIOWrite(0x1CE, 1);
    t.MMIOWrite(0x1D0, 2);
    t.MMIOWrite(0x1DA, 0x0070);
    t.MMIOWrite(0x0E2, 1 << 4);
    t.MMIOWrite(0x0E4, 1 << 8);
    t.MMIOWrite(0x0E6, 1);
    for (int i = 0; i < c.bt1_words; ++i)
        t.MMIOWrite(0x346, (u16)(0x300 + i));
    t.MMIOWrite(0x33E, c.bt1_enable ? 1 : 0);
}

} // namespace sim
