// Guest program builder. Opcode words are PINNED constants (design/gadget_encodings.txt, obtained once
// from the repository's own assembler at commit f94d47f); the harness never calls the assembler at
// check time, so a change to the disassembler/parser cannot become a false alarm here.
#pragma once
#include <map>
#include "../core/common.h"

namespace sim {
namespace op {
constexpr u16 NOP = 0x0000, EINT = 0x4380, DINT = 0x43C0, TRAP = 0x0020;
constexpr u16 INC_A0 = 0x67D0, INC_A1 = 0x77D0, DEC_A0 = 0x67E0, DEC_A1 = 0x77E0;
constexpr u16 CLR_A0 = 0x6760, CLR_A1 = 0x7760, CLR_B0 = 0x6F60, CLR_B1 = 0x7F60;
constexpr u16 BRR_SELF = 0x57F0; // brr -1 (idle loop)
constexpr u16 RET = 0x4580, RETI = 0x45C0, RETIC = 0x45D0, CNTX_S = 0xD380, CNTX_R = 0xD390;
constexpr u16 BREAK = 0xD3C0, BKREPSTO_SP = 0x9468, BKREPRST_SP = 0x5F48;
constexpr u16 REP_R0 = 0x0D00, REP_R6 = 0x0002;
constexpr u16 MOV_R0_TO_MR1 = 0x1801; // mov r0, [r1]
constexpr u16 MOV_R2_TO_MR1 = 0x1841; // mov r2, [r1]
constexpr u16 MOV_MR1_TO_R0 = 0x1C01; // mov [r1], r0
constexpr u16 MOV_MR1_TO_R2 = 0x1C41; // mov [r1], r2
constexpr u16 MOV_A0L_TO_MR1 = 0x1B41, MOV_A1L_TO_MR1 = 0x1B61;
constexpr u16 MOV_MR1_TO_A0 = 0x1F01, MOV_MR1_TO_A1 = 0x1F21;
constexpr u16 MOV_R0_R1 = 0x5820, MOV_A0L_R0 = 0x581A, MOV_R0_A0 = 0x5B00;
constexpr u16 MOV_SP_R0 = 0x580D, MOV_R0_SP = 0x59A0;
constexpr u16 ADD_R0_A0 = 0x86A0, ADD_MR1_A0 = 0x8681;
constexpr u16 BANKR = 0x8CDF, BANKR_AR0 = 0x8CDC, BANKR_ARP0 = 0x8CD8;
constexpr u16 PUSH_R0 = 0x5E40, PUSH_R1 = 0x5E41, POP_R0 = 0x5E60, POP_R1 = 0x5E61;
constexpr u16 PUSH_A0L = 0x5E5A, PUSH_A0H = 0x5E5C, POP_A0L = 0x5E7A, POP_A0H = 0x5E7C;
constexpr u16 PUSH_A0E = 0xD7CC, PUSH_A1E = 0xD7CE, POP_A0E = 0x47B6, POP_A1E = 0x47B7;
constexpr u16 PUSHA_A0 = 0x4384, PUSHA_A1 = 0x43C4, PUSHA_B0 = 0xD788, PUSHA_B1 = 0xD78A;
constexpr u16 POPA_A0 = 0x47B2, POPA_A1 = 0x47B3, POPA_B0 = 0x47B0, POPA_B1 = 0x47B1;
constexpr u16 PUSH_STT0 = 0xD3D8, POP_STT0 = 0x88C7, PUSH_STT1 = 0xD3D9, POP_STT1 = 0x89C7;
constexpr u16 PUSH_ST0 = 0x5E48, POP_ST0 = 0x5E68, PUSH_ST1 = 0x5E49, POP_ST1 = 0x5E69, PUSH_ST2 = 0x5E4A, POP_ST2 = 0x5E6A;
constexpr u16 PUSH_REPC = 0xD7F8, POP_REPC = 0xD7F0, PUSH_LC = 0x5E5E, POP_LC = 0x5E7E;
constexpr u16 PUSH_SV = 0x5E5F, POP_SV = 0x5E7F, PUSH_Y0 = 0x5E47, POP_Y0 = 0x5E67;
constexpr u16 PUSH_X0 = 0xD4D4, POP_X0 = 0xD494, PUSH_X1 = 0xD4D5, POP_X1 = 0xD495, PUSH_Y1 = 0xD4D6, POP_Y1 = 0x0004;
constexpr u16 PUSH_P0 = 0xD78C, POP_P0 = 0xD496, PUSH_P1 = 0xD78E, POP_P1 = 0xD497;
constexpr u16 PUSH_R7 = 0x5E46, POP_R7 = 0x5E66;
constexpr u16 PUSH_MOD0 = 0xD3DC, POP_MOD0 = 0x8CC7, PUSH_MOD1 = 0xD3DD, POP_MOD1 = 0x8DC7, PUSH_MOD2 = 0xD3DE, POP_MOD2 = 0x8EC7;
constexpr u16 PUSH_CFGI = 0x5E4E, POP_CFGI = 0x5E6E, PUSH_CFGJ = 0x5E4F, POP_CFGJ = 0x5E6F;
constexpr u16 PUSH_AR0 = 0xD3D0, POP_AR0 = 0x80C7, PUSH_ARP0 = 0xD3D2, POP_ARP0 = 0x82C7;
constexpr u16 MOV_A0L_MOD3 = 0x9C77; // mov a0l <- mod3 ? (see encodings: "mov a0l mod3" = source a0l, dest mod3)
// register codes for "mov imm16, <Register>" (0x5E00 | code)
enum Reg : u16 { R0 = 0, R1 = 1, R2 = 2, R3 = 3, R4 = 4, R5 = 5, R7 = 6, Y0 = 7, ST0 = 8, ST1 = 9, ST2 = 10, SP = 13,
                 CFGI = 14, CFGJ = 15, A0 = 0x18, A1 = 0x19, A0L = 0x1A, A1L = 0x1B, A0H = 0x1C, A1H = 0x1D, LC = 0x1E, SV = 0x1F };
// SttMod codes for "mov imm16, <SttMod>" (0x0030 | code)
enum SttMod : u16 { STT0 = 0, STT1 = 1, STT2 = 2, MOD0 = 4, MOD1 = 5, MOD2 = 6, MOD3 = 7 };
} // namespace op

struct Asm {
    std::map<u32, u16> words;
    u32 at = 0;

    Asm& org(u32 a) {
        at = a;
        return *this;
    }
    Asm& w(u16 v) {
        words[at++] = v;
        return *this;
    }
    Asm& w2(u16 a, u16 b) {
        w(a);
        return w(b);
    }
    // --- control flow
    Asm& br(u32 target, u16 cond = 0) {
        return w2((u16)(0x4180 | (((target >> 16) & 3) << 4) | cond), (u16)(target & 0xFFFF));
    }
    Asm& call(u32 target, u16 cond = 0) {
        return w2((u16)(0x41C0 | (((target >> 16) & 3) << 4) | cond), (u16)(target & 0xFFFF));
    }
    Asm& brr(int off, u16 cond = 0) { // relative to the NEXT instruction
        return w((u16)(0x5000 | (((u16)off & 0x7F) << 4) | cond));
    }
    Asm& callr(int off, u16 cond = 0) {
        return w((u16)(0x1000 | (((u16)off & 0x7F) << 4) | cond));
    }
    Asm& idle() {
        return w(op::BRR_SELF);
    }
    Asm& rep_imm(u8 n) {
        return w((u16)(0x0C00 | n));
    }
    Asm& bkrep_imm(u8 n, u32 end_addr) { // end address = address of the LAST word of the block
        return w2((u16)(0x5C00 | n), (u16)(end_addr & 0xFFFF));
    }
    Asm& bkrep_r0(u32 end_addr) {
        return w2((u16)(0x5D00 | (((end_addr >> 16) & 3) << 5)), (u16)(end_addr & 0xFFFF));
    }
    Asm& bkrep_r6(u32 end_addr) {
        return w2((u16)(0x8FDC | ((end_addr >> 16) & 3)), (u16)(end_addr & 0xFFFF));
    }
    Asm& rets(u8 n) {
        return w((u16)(0x0900 | n));
    }
    // --- data movement
    Asm& mov_imm(op::Reg r, u16 v) {
        return w2((u16)(0x5E00 | r), v);
    }
    Asm& mov_imm_r6(u16 v) {
        return w2(0x0023, v);
    }
    Asm& mov_imm_b0(u16 v) {
        return w2(0x5E20, v);
    }
    Asm& mov_imm_b1(u16 v) {
        return w2(0x5F20, v);
    }
    Asm& mov_imm_sttmod(op::SttMod r, u16 v) {
        return w2((u16)(0x0030 | r), v);
    }
    Asm& mov_imm_repc(u16 v) {
        return w2(0x0001, v);
    }
    // store a 16-bit immediate to a data address: clobbers r0, r1
    Asm& store_imm(u16 addr, u16 v) {
        mov_imm(op::R0, v);
        mov_imm(op::R1, addr);
        return w(op::MOV_R0_TO_MR1);
    }
    // load a data word into r0: clobbers r1
    Asm& load_r0(u16 addr) {
        mov_imm(op::R1, addr);
        return w(op::MOV_MR1_TO_R0);
    }
    Asm& store_a0l_abs(u16 addr) { // mov a0l, [imm16]
        return w2(0xD4BC, addr);
    }
    Asm& store_a1l_abs(u16 addr) {
        return w2(0xD5BC, addr);
    }
    Asm& load_a0_abs(u16 addr) { // mov [imm16], a0
        return w2(0xD4B8, addr);
    }
    Asm& load_a1_abs(u16 addr) {
        return w2(0xD5B8, addr);
    }
    Asm& add_imm_a0(u16 v) {
        return w2(0x86C0, v);
    }
    Asm& add_imm_a1(u16 v) {
        return w2(0x87C0, v);
    }
    Asm& push_imm(u16 v) {
        return w2(0x5F40, v);
    }
    Asm& load_page(u8 p) {
        return w((u16)(0x0400 | p));
    }
    Asm& store_r0_page(u8 off) { // mov r0, [page:imm8]
        return w((u16)(0x2000 | off));
    }
    Asm& load_r0_page(u8 off) { // mov [page:imm8], r0
        return w((u16)(0x6000 | off));
    }
};

} // namespace sim
