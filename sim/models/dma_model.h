// DmaModel — the documented 3-D strided copy (src/dma.md) with external memory behind AHBM
// (src/ahbm.md), restricted to the in-contract shapes of property C13: word mode with 16-bit units at
// even external addresses, double-word mode with 32-bit units at addresses divisible by four, bursts
// only where the step equals the unit size and a row holds a multiple of the burst length.
#pragma once
#include <vector>
#include "../core/box.h"

namespace sim {

struct DmaConfig {
    u32 src = 0, dst = 0;
    u16 size[3] = {1, 1, 1};
    u16 sstep[3] = {1, 0, 0}, dstep[3] = {1, 0, 0};
    int src_space = 0, dst_space = 0; // 0 DSP, 7 external
    bool dword = false;
    int burst = 1; // AHBM burst length of the bound channel (1, 4, 8)
};

struct DmaModelResult {
    std::vector<Event> ext_trace;
    bool dsp_oob = false; // a touched DSP word address is outside the array: out of contract for C13
    u64 elements = 0;
};

// mem: the full 0x80000-byte DSP memory image (modified in place); ext: external memory (modified in place)
inline DmaModelResult dma_model_run(const DmaConfig& c, std::vector<u8>& mem, ExtMem& ext) {
    DmaModelResult res;
    auto rd = [&](u32 word) -> u16 {
        if (0x20000ull + word >= 0x40000ull) {
            res.dsp_oob = true;
            return 0;
        }
        u32 b = (0x20000 + word) * 2;
        return (u16)(mem[b] | (mem[b + 1] << 8));
    };
    auto wr = [&](u32 word, u16 v) {
        if (0x20000ull + word >= 0x40000ull) {
            res.dsp_oob = true;
            return;
        }
        u32 b = (0x20000 + word) * 2;
        mem[b] = (u8)v;
        mem[b + 1] = (u8)(v >> 8);
    };
    u64 n0 = c.dword ? std::max<u64>((c.size[0] + 1) / 2, 1) : std::max<u64>(c.size[0], 1);
    u64 n1 = std::max<u64>(c.size[1], 1), n2 = std::max<u64>(c.size[2], 1);
    int width = c.dword ? 32 : 16;
    u32 unit_bytes = c.dword ? 4 : 2;
    u32 s = c.src, d = c.dst;
    // burst bookkeeping (external side only): reads fetch `burst` consecutive units at the first element
    // of a group; writes are emitted when `burst` units have been collected
    std::vector<u32> rq;
    std::vector<u32> wq;
    u32 wstart = 0;
    for (u64 i2 = 0; i2 < n2; ++i2)
        for (u64 i1 = 0; i1 < n1; ++i1)
            for (u64 i0 = 0; i0 < n0; ++i0) {
                u32 value = 0;
                if (c.src_space == 0) {
                    if (c.dword)
                        value = rd(s & ~1u) | ((u32)rd(s | 1u) << 16);
                    else
                        value = rd(s);
                } else {
                    if (rq.empty()) {
                        for (int k = 0; k < c.burst; ++k) {
                            u32 a = s + (u32)k * unit_bytes;
                            u32 v = ext.read(a, width);
                            res.ext_trace.push_back(Event{Event::ExtRead, (u8)width, a, v});
                            rq.push_back(v);
                        }
                    }
                    value = rq.front();
                    rq.erase(rq.begin());
                }
                if (c.dst_space == 0) {
                    if (c.dword) {
                        wr(d & ~1u, (u16)value);
                        wr(d | 1u, (u16)(value >> 16));
                    } else {
                        wr(d, (u16)value);
                    }
                } else {
                    if (wq.empty())
                        wstart = d;
                    wq.push_back(value);
                    if ((int)wq.size() >= c.burst) {
                        for (std::size_t k = 0; k < wq.size(); ++k) {
                            u32 a = wstart + (u32)k * unit_bytes;
                            u32 v = c.dword ? wq[k] : (wq[k] & 0xFFFF);
                            ext.write(a, width, v);
                            res.ext_trace.push_back(Event{Event::ExtWrite, (u8)width, a, v});
                        }
                        wq.clear();
                    }
                }
                ++res.elements;
                if (i0 + 1 < n0) {
                    s += c.sstep[0];
                    d += c.dstep[0];
                } else if (i1 + 1 < n1) {
                    s += c.sstep[1];
                    d += c.dstep[1];
                } else if (i2 + 1 < n2) {
                    s += c.sstep[2];
                    d += c.dstep[2];
                }
            }
    return res;
}

} // namespace sim
