// TimerModel — executable reference written from src/timer.md and property C15
// (DESIGN.md appendix A.1). It deliberately knows nothing about timer.cpp.
#pragma once
#include "../core/common.h"

namespace sim {

struct TimerModel {
    enum Mode { Single = 0, Auto = 1, Free = 2, Event = 3 };
    int mode = Single;
    bool pause = false;
    bool mu = false;
    u32 start = 0;
    u32 counter = 0;
    u32 mirror = 0; // what the counter mirror registers show
    u64 irqs = 0;

    void restart() {
        if (mode != Free) {
            counter = start;
            if (mu)
                mirror = counter;
        }
    }
    void tick() {
        if (pause || mode == Event)
            return;
        if (counter == 0) {
            if (mode == Auto) {
                restart(); // reload on the following cycle, no interrupt
            } else if (mode == Free) {
                counter = 0xFFFFFFFFu;
                if (mu)
                    mirror = counter;
            }
        } else {
            --counter;
            if (mu)
                mirror = counter;
            if (counter == 0)
                ++irqs;
        }
    }
    void event_write() {
        if (pause || mode != Event || counter == 0)
            return;
        --counter;
        if (mu)
            mirror = counter;
        if (counter == 0)
            ++irqs;
    }
    bool can_move() const {
        if (pause || mode == Event)
            return false;
        if (counter == 0 && mode == Single)
            return false;
        return true;
    }
    // k single ticks. The stretch where counter stays >= 1 after every tick is uniform
    // (decrement, no interrupt), so it is taken in one subtraction; everything else is ticked.
    void advance(u64 k) {
        if (!can_move())
            return; // tick() is the identity in these states
        u64 guard = 0;
        while (k > 0) {
            if (counter > 1) {
                u64 d = std::min<u64>(k, (u64)counter - 1);
                counter -= (u32)d;
                if (mu)
                    mirror = counter;
                k -= d;
            } else {
                tick();
                --k;
                if (!can_move())
                    return;
            }
            if (++guard > 4000000)
                throw std::runtime_error("TimerModel::advance guard");
        }
    }
    // number of ticks until the next interrupt (the n-th tick from now raises it), or ~0 for never
    u64 next_irq() const {
        if (!can_move())
            return ~0ull;
        if (counter >= 1)
            return counter;
        // counter == 0
        if (mode == Auto)
            return start == 0 ? ~0ull : 1 + (u64)start;
        /* Free */ return 1 + (u64)0xFFFFFFFFu;
    }
};

} // namespace sim
