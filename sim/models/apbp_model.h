// ApbpModel — one direction of the APBP mailbox/semaphore port, written from src/apbp.md and
// property C14 (DESIGN.md appendix A.3).
#pragma once
#include "../core/common.h"

namespace sim {

struct ApbpModel {
    bool ready[3] = {false, false, false};
    u16 data[3] = {0, 0, 0};
    bool disable[3] = {false, false, false};
    u16 sem = 0;
    u16 mask = 0;

    bool signal() const {
        return (sem & ~mask) != 0;
    }
    // returns true if the peer must be interrupted (exactly once) by this send
    bool send(int ch, u16 v) {
        data[ch] = v;
        ready[ch] = true;
        return !disable[ch];
    }
    u16 recv(int ch) {
        ready[ch] = false;
        return data[ch];
    }
    u16 peek(int ch) const {
        return data[ch];
    }
    // semaphore operations return the interrupt requirement: 1 = required (flag rose),
    // 0 = forbidden (flag stays 0), 2 = unconstrained (flag was and stays 1, or fell)
    int set_sem(u16 bits) {
        bool old = signal();
        sem |= bits;
        return judge(old);
    }
    int ack_sem(u16 bits) {
        bool old = signal();
        sem &= (u16)~bits;
        return judge(old);
    }
    int mask_sem(u16 m) {
        bool old = signal();
        mask = m;
        return judge(old);
    }

private:
    int judge(bool old) const {
        bool now = signal();
        if (now && !old)
            return 1;
        if (!now)
            return 0;
        return 2;
    }
};

} // namespace sim
