// BtdmpModel — executable reference for the audio transmit FIFO, written from src/btdmp.md and
// property C16 (DESIGN.md appendix A.2).
#pragma once
#include <deque>
#include "../core/common.h"

namespace sim {

struct Frame {
    s64 l, r;
    bool operator==(const Frame& o) const {
        return l == o.l && r == o.r;
    }
};

struct BtdmpModel {
    bool enable = false;
    u32 period = 4096;
    u32 phase = 0; // enabled cycles since the last frame
    std::deque<u16> fifo;
    u64 irqs = 0;
    std::vector<Frame> frames;

    bool empty() const {
        return fifo.empty();
    }
    bool full() const {
        return fifo.size() == 16;
    }
    void send(u16 v) {
        if (fifo.size() < 16)
            fifo.push_back(v);
    }
    void flush() {
        fifo.clear();
    }
    void tick() {
        if (!enable)
            return;
        ++phase;
        if (phase >= period) {
            phase = 0;
            s64 s[2];
            for (int i = 0; i < 2; ++i) {
                if (fifo.empty()) {
                    s[i] = 0;
                } else {
                    s[i] = (std::int16_t)fifo.front();
                    fifo.pop_front();
                    if (fifo.empty())
                        ++irqs;
                }
            }
            frames.push_back(Frame{s[0], s[1]});
        }
    }
    // ticks until the tick that raises the next empty interrupt (that tick's ordinal), ~0 if never
    u64 next_irq() const {
        if (!enable || fifo.empty())
            return ~0ull;
        u64 first = phase + 1 >= period ? 1 : period - phase; // ordinal of the next frame tick
        u64 frames_needed = (fifo.size() + 1) / 2;
        return first + (frames_needed - 1) * (u64)period;
    }
};

} // namespace sim
