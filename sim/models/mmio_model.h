// MmioModel — register-file model for property C12, written from the MMIO layout documents
// (src/*.md, DESIGN.md appendix B). For every write it yields (a) what documented fields must read
// back and (b) the set of other offsets the documented couplings allow to change (frame condition).
#pragma once
#include <set>
#include "../core/common.h"
#include "apbp_model.h"

namespace sim {

struct MmioModel {
    u16 val[0x800];
    u16 mask[0x800]; // bits of val[] that are known/required
    // DMA channel window: eight independent copies of 0x1C0..0x1DE
    u16 chval[8][16];
    u16 chmask[8][16];
    u16 active = 0;
    ApbpModel c2d, d2c;
    u16 icu_request = 0;
    int fifo[2] = {0, 0};
    // timers (paused in this scenario unless in event-count mode, where only EW writes count): restart copies start into the
    // counter and, if MU, into the mirror; an event decrements the counter, mirrors it if MU and requests the interrupt at zero
    bool mu[2] = {false, false};
    bool paused[2] = {false, false};
    int mode[2] = {0, 0};
    u32 counter[2] = {0, 0};

    MmioModel() {
        std::memset(val, 0, sizeof val);
        std::memset(mask, 0, sizeof mask);
        std::memset(chval, 0, sizeof chval);
        std::memset(chmask, 0, sizeof chmask);
        set(0x01A, 0xC902, 0xFFFF);
        set(0x18C, 0xFFFF, 0xFFFF);
        set(0x0E0, 0, 0xFFFF);
        for (u16 t = 0; t < 2; ++t) {
            set((u16)(0x22 + t * 0x10), 0, 0xFFFF);
            for (u16 o = 0x24; o <= 0x2A; o += 2)
                set((u16)(o + t * 0x10), 0, 0xFFFF); // start value and counter mirror are 0 after Reset
            set((u16)(0x2CA + t * 0x80), 0, 0xFFFF);
        }
        set(0x202, 0, 0xFFFF);
        set(0x204, 0, 0xFFFF);
        set(0x0D0, 0, 0xFFFF);
        refresh_status();
    }
    void set(u16 off, u16 v, u16 m) {
        val[off] = (u16)((val[off] & ~m) | (v & m));
        mask[off] |= m;
    }
    static bool in_window(u16 off) {
        return off >= 0x1C0 && off <= 0x1DE && !(off & 1);
    }
    static u16 plain_mask(u16 off) {
        switch (off) {
        case 0x20:
        case 0x30:
            return 0xFBCF; // all documented fields; RES (bit 10) handled separately, bit 5 undocumented
        case 0x0D4:
            return 0x3104;
        case 0x0E2:
        case 0x0E8:
        case 0x0EE:
            return 0x0036;
        case 0x0E4:
        case 0x0EA:
        case 0x0F0:
            return 0x0100;
        case 0x114:
        case 0x116:
            return 0x3F3F;
        case 0x11A:
            return 0x0057;
        case 0x184:
            return 0x00FF;
        case 0x1BE:
            return 0x0007;
        case 0x1DA:
            return 0x04FF;
        case 0x2BE:
        case 0x33E:
            return 0x0001;
        default:
            break;
        }
        if (off >= 0x212 && off <= 0x24E && ((off - 0x212) % 4) == 0)
            return 0x8003;
        return 0xFFFF;
    }
    void refresh_status() {
        u16 d6 = 0, d8 = 0;
        for (int i = 0; i < 3; ++i) {
            const int cbit[3] = {8, 12, 13};
            if (d2c.ready[i]) {
                d6 |= (u16)(1u << (5 + i));
                d8 |= (u16)(1u << (10 + i));
            }
            if (c2d.ready[i]) {
                d6 |= (u16)(1u << cbit[i]);
                d8 |= (u16)(1u << (13 + i));
            }
        }
        if (c2d.signal())
            d6 |= 1u << 9;
        if (d2c.signal())
            d8 |= 1u << 9;
        set(0x0D6, d6, 0x33E0);
        set(0x0D8, d8, 0xFE00);
        for (int i = 0; i < 3; ++i)
            set((u16)(0x0C0 + 4 * i), d2c.data[i], 0xFFFF);
        set(0x0CC, d2c.sem, 0xFFFF);
        set(0x0D2, c2d.sem, 0xFFFF);
        set(0x0CE, c2d.mask, 0xFFFF);
        set(0x200, icu_request, 0xFFFF);
        for (u16 t = 0; t < 2; ++t)
            set((u16)(0x2C2 + t * 0x80), (u16)((fifo[t] == 16 ? 8 : 0) | (fifo[t] == 0 ? 0x10 : 0)), 0x0018);
    }
    void load_window() {
        for (int i = 0; i < 16; ++i) {
            u16 off = (u16)(0x1C0 + 2 * i);
            val[off] = chval[active][i];
            mask[off] = chmask[active][i];
        }
    }
    // Applies a write. Returns the offsets (other than `off`) that the documented couplings allow to change.
    std::set<u16> write(u16 off, u16 v) {
        std::set<u16> allowed;
        auto status = [&]() {
            allowed.insert(0x0D6);
            allowed.insert(0x0D8);
        };
        if (off & 1) { // odd offsets hold no documented register: plain storage
            set(off, v, 0xFFFF);
            return allowed;
        }
        switch (off) {
        case 0x01A:
        case 0x0E0:
        case 0x200:
        case 0x0C2:
        case 0x0C6:
        case 0x0CA:
        case 0x0D2:
            return allowed; // read-only: write ignored
        case 0x18C:
            return allowed; // reads 0xFFFF whatever is written
        case 0x20:
        case 0x30: {
            int t = off == 0x20 ? 0 : 1;
            set(off, (u16)(v & ~0x0400), (u16)(plain_mask(off) | 0x0400)); // RES reads 0
            mu[t] = (v >> 9) & 1;
            paused[t] = (v >> 8) & 1;
            mode[t] = (v >> 2) & 7;
            if ((v & 0x0400) && mode[t] != 2) {
                // restart: counter := start; mirror follows only when MU
                counter[t] = (u32)val[off + 4] | (u32)val[off + 6] << 16;
                if (mu[t]) {
                    u16 lo = (u16)(off + 4), hi = (u16)(off + 6);
                    // mirror := start where the start value is known
                    val[off + 8] = val[lo];
                    mask[off + 8] = mask[lo];
                    val[off + 0xA] = val[hi];
                    mask[off + 0xA] = mask[hi];
                    allowed.insert((u16)(off + 8));
                    allowed.insert((u16)(off + 0xA));
                }
            }
            return allowed;
        }
        case 0x22:
        case 0x32: {
            // event write (reads 0): counts only in event-count mode, unpaused, with a non-zero counter
            int t = off == 0x22 ? 0 : 1;
            if ((v & 1) && !paused[t] && mode[t] == 3 && counter[t] != 0) {
                --counter[t];
                if (mu[t]) {
                    set((u16)(off + 6), (u16)(counter[t] & 0xFFFF), 0xFFFF);
                    set((u16)(off + 8), (u16)(counter[t] >> 16), 0xFFFF);
                    allowed.insert((u16)(off + 6));
                    allowed.insert((u16)(off + 8));
                }
                if (counter[t] == 0) {
                    icu_request |= (u16)(1u << (t == 0 ? 0xA : 0x9));
                    refresh_status();
                    allowed.insert(0x200);
                }
            }
            return allowed;
        }
        case 0x0C0:
        case 0x0C4:
        case 0x0C8:
            d2c.send((off - 0x0C0) / 4, v);
            refresh_status();
            status();
            return allowed;
        case 0x0CC:
            d2c.set_sem(v);
            refresh_status();
            status();
            return allowed;
        case 0x0CE:
            c2d.mask_sem(v);
            refresh_status();
            status();
            return allowed;
        case 0x0D0:
            c2d.ack_sem(v);
            refresh_status();
            status();
            allowed.insert(0x0D2);
            return allowed;
        case 0x0D4:
            c2d.disable[0] = (v >> 8) & 1;
            c2d.disable[1] = (v >> 12) & 1;
            c2d.disable[2] = (v >> 13) & 1;
            set(off, v, plain_mask(off));
            return allowed;
        case 0x0D6:
        case 0x0D8:
        case 0x2C2:
        case 0x342:
            return allowed; // status bits are read-only; other bits undocumented
        case 0x202:
            icu_request &= (u16)~v;
            refresh_status();
            allowed.insert(0x200);
            return allowed;
        case 0x204:
            icu_request |= v;
            refresh_status();
            allowed.insert(0x200);
            return allowed;
        case 0x1BE:
            active = (u16)(v & 7);
            set(off, active, 0x0007);
            load_window();
            for (u16 o = 0x1C0; o <= 0x1DE; o += 2)
                allowed.insert(o);
            return allowed;
        case 0x2C6:
        case 0x346: {
            int t = off == 0x2C6 ? 0 : 1;
            if (fifo[t] < 16)
                ++fifo[t];
            refresh_status();
            allowed.insert((u16)(off - 4));
            mask[off] = 0; // reading the FIFO port back is undocumented
            return allowed;
        }
        case 0x2CA:
        case 0x34A: {
            int t = off == 0x2CA ? 0 : 1;
            fifo[t] = 0;
            refresh_status();
            allowed.insert((u16)(off - 8));
            return allowed;
        }
        default:
            break;
        }
        if (in_window(off)) {
            int i = (off - 0x1C0) / 2;
            u16 m = plain_mask(off);
            chval[active][i] = (u16)((chval[active][i] & ~m) | (v & m));
            chmask[active][i] |= m;
            load_window();
            return allowed;
        }
        set(off, v, plain_mask(off));
        return allowed;
    }
    // CPU->DSP command read (side effect) and host-side send, used to move the status bits
    void read_cmd(int ch) {
        c2d.recv(ch);
        refresh_status();
    }
    void host_send(int ch, u16 v) {
        c2d.send(ch, v);
        if (!c2d.disable[ch])
            icu_request |= 1u << 14;
        refresh_status();
    }
};

} // namespace sim
