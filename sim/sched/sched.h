// Seeded serialising thread scheduler for real threads (DESIGN.md 2.3).
// Threads registered with the scheduler run ONE AT A TIME; every intercepted synchronisation
// operation (pthread mutex lock/unlock, every std::atomic operation as compiled by TSan) is a schedule
// point at which the seeded policy may hand the turn to another runnable thread. This translation unit
// is compiled WITHOUT -fsanitize=thread and hands over with raw futex waits, so ThreadSanitizer sees
// no happens-before edge from the hand-off: it reports exactly the races of the program's own
// synchronisation, under an exactly repeatable interleaving.
#pragma once
#include <cstdint>

namespace sched {

struct Config {
    std::uint64_t seed = 1;
    int switch_permille = 100; // probability of a switch at a schedule point
    int switch_permille_tid[8] = {-1, -1, -1, -1, -1, -1, -1, -1}; // per running thread override (>= 0)
    int pct_depth = 0;         // >0: PCT-style priorities with this many change points (switch_permille ignored)
    std::uint64_t pct_horizon = 4000;
    int stall_tid = -1;        // stall fault: this thread gets no turn ...
    std::uint64_t stall_from = 0, stall_len = 0; // ... for schedule points [from, from+len) unless it is the only runnable one
    bool continue_seq = false; // keep numbering events after the previous phase (seq() stays monotone)
    const std::uint8_t* forced = nullptr; // replay of an explicit decision vector (thread id per decision), optional
    std::uint64_t forced_len = 0;
};

constexpr int kMaxThreads = 8;

void begin(const Config& cfg, int nthreads);
void thread_enter(int tid); // first call of a scheduled thread: registers, then waits for its first turn
void thread_exit(int tid);  // last call of a scheduled thread
void start();               // controller: waits until all threads registered, then gives the first turn
void finish();              // controller: after joining all threads

std::uint64_t seq();        // global event sequence number (schedule points so far)
int self();                 // id of the calling scheduled thread, -1 for others
std::uint64_t trace_hash(); // hash of (thread, kind) over all schedule points and decisions
std::uint64_t points();
std::uint64_t switches();
std::uint64_t contended();  // lock requests that found the mutex held by another thread
std::uint64_t stalls();
bool deadlocked();
const char* deadlock_info();
void set_deadlock_handler(void (*fn)());
const std::uint8_t* decisions(std::uint64_t* n);

} // namespace sched
