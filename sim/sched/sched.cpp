// compiled WITHOUT -fsanitize=thread (see sched.h)
#include "sched.h"
#include <cerrno>
#include <climits>
#include <cstdio>
#include <cstdlib>
#include <cstring>
#include <linux/futex.h>
#include <pthread.h>
#include <sched.h>
#include <sys/syscall.h>
#include <unistd.h>

namespace sched {
namespace {

struct MutexRec {
    const void* addr = nullptr;
    int owner = -1;
    int count = 0;
};

struct State {
    Config cfg;
    int n = 0;
    volatile int registered = 0;
    volatile int current = -1; // thread whose turn it is; futex word
    volatile int active = 0;
    bool alive[kMaxThreads];
    const void* blocked_on[kMaxThreads]; // mutex a thread waits for (model level), or nullptr
    MutexRec mutexes[256];
    int n_mutex = 0;
    std::uint64_t rng = 0;
    std::uint64_t points = 0, switches = 0, contended = 0, stalls = 0;
    std::uint64_t hash = 1469598103934665603ull;
    int prio[kMaxThreads];
    std::uint64_t pct_change[8];
    bool deadlock = false;
    char deadlock_text[512];
    void (*on_deadlock)() = nullptr;
    std::uint64_t n_dec = 0;
};
// decision log: static storage (no allocator calls from the scheduler: TSan intercepts malloc/realloc)
constexpr std::uint64_t kMaxDecisions = 1u << 21;
std::uint8_t g_decisions[kMaxDecisions];
State g;
std::uint64_t g_seq_base = 0;
thread_local int t_tid = -1;

std::uint64_t next_rand() {
    std::uint64_t z = (g.rng += 0x9E3779B97F4A7C15ull);
    z = (z ^ (z >> 30)) * 0xBF58476D1CE4E5B9ull;
    z = (z ^ (z >> 27)) * 0x94D049BB133111EBull;
    return z ^ (z >> 31);
}
void mixin(std::uint64_t v) {
    g.hash ^= v;
    g.hash *= 1099511628211ull;
}
void futex_wait(volatile int* addr, int val) {
    syscall(SYS_futex, addr, FUTEX_WAIT_PRIVATE, val, nullptr, nullptr, 0);
}
void futex_wake_all(volatile int* addr) {
    syscall(SYS_futex, addr, FUTEX_WAKE_PRIVATE, INT_MAX, nullptr, nullptr, 0);
}
void wait_turn(int tid) {
    int spins = 0;
    for (;;) {
        int c = __atomic_load_n(&g.current, __ATOMIC_ACQUIRE);
        if (c == tid)
            return;
        if (++spins < 200) {
            sched_yield();
            continue;
        }
        futex_wait(&g.current, c);
    }
}
void give_turn(int tid) {
    __atomic_store_n(&g.current, tid, __ATOMIC_RELEASE);
    futex_wake_all(&g.current);
}
MutexRec* find_mutex(const void* addr, bool create) {
    for (int i = 0; i < g.n_mutex; ++i)
        if (g.mutexes[i].addr == addr)
            return &g.mutexes[i];
    if (!create)
        return nullptr;
    if (g.n_mutex >= 256) {
        // recycle a free record
        for (int i = 0; i < g.n_mutex; ++i)
            if (g.mutexes[i].owner < 0) {
                g.mutexes[i].addr = addr;
                g.mutexes[i].count = 0;
                return &g.mutexes[i];
            }
        std::abort();
    }
    MutexRec* m = &g.mutexes[g.n_mutex++];
    m->addr = addr;
    m->owner = -1;
    m->count = 0;
    return m;
}
bool runnable(int tid) {
    if (!g.alive[tid])
        return false;
    if (g.blocked_on[tid]) {
        MutexRec* m = find_mutex(g.blocked_on[tid], false);
        if (m && m->owner >= 0 && m->owner != tid)
            return false;
    }
    return true;
}
void record_decision(int tid) {
    if (g.n_dec < kMaxDecisions)
        g_decisions[g.n_dec] = (std::uint8_t)tid;
    ++g.n_dec;
}
// picks the thread that runs next; self may be -1 (exiting) or not runnable (blocked)
int decide(int self) {
    int cand[kMaxThreads], nc = 0;
    for (int i = 0; i < g.n; ++i)
        if (runnable(i))
            cand[nc++] = i;
    if (nc == 0)
        return -1;
    int pick = -1;
    if (g.cfg.forced && g.n_dec < g.cfg.forced_len) {
        int want = g.cfg.forced[g.n_dec];
        for (int i = 0; i < nc; ++i)
            if (cand[i] == want)
                pick = want;
    }
    if (pick < 0) {
        // stall fault: remove the stalled thread from the candidates while others can run
        if (g.cfg.stall_tid >= 0 && g.points >= g.cfg.stall_from && g.points < g.cfg.stall_from + g.cfg.stall_len && nc > 1) {
            int k = 0;
            for (int i = 0; i < nc; ++i)
                if (cand[i] != g.cfg.stall_tid)
                    cand[k++] = cand[i];
            if (k < nc) {
                nc = k;
                ++g.stalls;
            }
        }
        bool self_ok = false;
        for (int i = 0; i < nc; ++i)
            if (cand[i] == self)
                self_ok = true;
        if (g.cfg.pct_depth > 0) {
            for (int d = 0; d < g.cfg.pct_depth; ++d)
                if (g.pct_change[d] == g.points && self >= 0)
                    g.prio[self] = -(d + 1); // priority change point: the running thread drops below everyone
            int best = cand[0];
            for (int i = 1; i < nc; ++i)
                if (g.prio[cand[i]] > g.prio[best])
                    best = cand[i];
            pick = best;
        } else if (self_ok && (int)(next_rand() % 1000) >= (self >= 0 && g.cfg.switch_permille_tid[self] >= 0 ? g.cfg.switch_permille_tid[self]
                                                                                                            : g.cfg.switch_permille)) {
            pick = self;
        } else {
            pick = cand[next_rand() % (std::uint64_t)nc];
        }
    }
    record_decision(pick);
    return pick;
}
void declare_deadlock(int self) {
    g.deadlock = true;
    int off = std::snprintf(g.deadlock_text, sizeof g.deadlock_text, "no runnable thread at schedule point %llu:", (unsigned long long)g.points);
    for (int i = 0; i < g.n && off < (int)sizeof g.deadlock_text - 64; ++i) {
        if (!g.alive[i])
            continue;
        MutexRec* m = g.blocked_on[i] ? find_mutex(g.blocked_on[i], false) : nullptr;
        off += std::snprintf(g.deadlock_text + off, sizeof g.deadlock_text - (std::size_t)off, " thread %d waits for mutex %d held by thread %d;", i,
                             m ? (int)(m - g.mutexes) : -1, m ? m->owner : -1);
    }
    (void)self;
    if (g.on_deadlock)
        g.on_deadlock();
    std::fflush(nullptr);
    _exit(86);
}
// the heart: called by the running thread at a schedule point
void schedule_point(int kind, const void* obj) {
    int self = t_tid;
    ++g.points;
    mixin(((std::uint64_t)self << 8) | (std::uint64_t)kind);
    (void)obj;
    int next = decide(self);
    if (next < 0)
        declare_deadlock(self);
    mixin((std::uint64_t)next);
    if (next != self) {
        ++g.switches;
        give_turn(next);
        wait_turn(self);
    }
}

} // namespace

void begin(const Config& cfg, int nthreads) {
    g_seq_base = cfg.continue_seq ? g_seq_base + g.points : 0;
    g = State();
    g.cfg = cfg;
    g.n = nthreads;
    g.rng = cfg.seed * 0x9E3779B97F4A7C15ull + 12345;
    for (int i = 0; i < kMaxThreads; ++i) {
        g.alive[i] = false;
        g.blocked_on[i] = nullptr;
        g.prio[i] = 0;
    }
    if (cfg.pct_depth > 0) {
        // random initial priorities (distinct), and change points
        for (int i = 0; i < nthreads; ++i)
            g.prio[i] = 100 + (int)(next_rand() % 1000) * 8 + i;
        for (int d = 0; d < cfg.pct_depth && d < 8; ++d)
            g.pct_change[d] = 1 + next_rand() % (cfg.pct_horizon ? cfg.pct_horizon : 1);
    }
    g.current = -1;
    __atomic_store_n(&g.registered, 0, __ATOMIC_RELEASE);
    __atomic_store_n(&g.active, 1, __ATOMIC_RELEASE);
}

void thread_enter(int tid) {
    t_tid = tid;
    g.alive[tid] = true;
    __atomic_add_fetch(&g.registered, 1, __ATOMIC_ACQ_REL);
    wait_turn(tid);
}

void start() {
    while (__atomic_load_n(&g.registered, __ATOMIC_ACQUIRE) < g.n)
        sched_yield();
    int first = decide(-1);
    mixin((std::uint64_t)first);
    give_turn(first);
}

void thread_exit(int tid) {
    g.alive[tid] = false;
    t_tid = -1;
    ++g.points;
    mixin(0xE000 | (std::uint64_t)tid);
    int next = decide(-1);
    if (next < 0) {
        bool any = false;
        for (int i = 0; i < g.n; ++i)
            any = any || g.alive[i];
        if (any)
            declare_deadlock(tid);
        give_turn(-2); // everyone finished
        return;
    }
    give_turn(next);
}

void finish() {
    __atomic_store_n(&g.active, 0, __ATOMIC_RELEASE);
}

std::uint64_t seq() {
    return g_seq_base + g.points;
}
int self() {
    return t_tid;
}
std::uint64_t trace_hash() {
    return g.hash;
}
std::uint64_t points() {
    return g.points;
}
std::uint64_t switches() {
    return g.switches;
}
std::uint64_t contended() {
    return g.contended;
}
std::uint64_t stalls() {
    return g.stalls;
}
bool deadlocked() {
    return g.deadlock;
}
const char* deadlock_info() {
    return g.deadlock_text;
}
void set_deadlock_handler(void (*fn)()) {
    g.on_deadlock = fn;
}
const std::uint8_t* decisions(std::uint64_t* n) {
    *n = g.n_dec < kMaxDecisions ? g.n_dec : kMaxDecisions;
    return g_decisions;
}

} // namespace sched

// ---------------------------------------------------------------- link-time wrappers (-Wl,--wrap=...)
using sched::g;
using sched::t_tid;

extern "C" {
int __real_pthread_mutex_lock(pthread_mutex_t*);
int __real_pthread_mutex_unlock(pthread_mutex_t*);
int __real_pthread_mutex_trylock(pthread_mutex_t*);

int __wrap_pthread_mutex_lock(pthread_mutex_t* m) {
    int self = t_tid;
    if (self < 0 || !g.active)
        return __real_pthread_mutex_lock(m);
    bool recursive = (m->__data.__kind & 3) == PTHREAD_MUTEX_RECURSIVE_NP;
    sched::MutexRec* rec = sched::find_mutex(m, true);
    sched::schedule_point(1, m); // before the acquisition
    for (;;) {
        rec = sched::find_mutex(m, true);
        if (rec->owner < 0) {
            rec->owner = self;
            rec->count = 1;
            g.blocked_on[self] = nullptr;
            break;
        }
        if (rec->owner == self) {
            if (recursive) {
                ++rec->count;
                break;
            }
            // relocking a non-recursive mutex: self-deadlock
            g.blocked_on[self] = m;
            // make the thread unrunnable for the detector
            rec->owner = self + 100;
            sched::declare_deadlock(self);
        }
        // held by another thread: block (model level) and let someone else run
        ++g.contended;
        g.blocked_on[self] = m;
        sched::mixin(0xB000 | (std::uint64_t)self);
        ++g.points;
        int next = sched::decide(self);
        if (next < 0)
            sched::declare_deadlock(self);
        sched::mixin((std::uint64_t)next);
        if (next != self) {
            ++g.switches;
            sched::give_turn(next);
            sched::wait_turn(self);
        }
    }
    return __real_pthread_mutex_lock(m);
}

int __wrap_pthread_mutex_trylock(pthread_mutex_t* m) {
    int self = t_tid;
    if (self < 0 || !g.active)
        return __real_pthread_mutex_trylock(m);
    sched::schedule_point(3, m);
    sched::MutexRec* rec = sched::find_mutex(m, true);
    bool recursive = (m->__data.__kind & 3) == PTHREAD_MUTEX_RECURSIVE_NP;
    if (rec->owner < 0) {
        rec->owner = self;
        rec->count = 1;
        return __real_pthread_mutex_trylock(m);
    }
    if (rec->owner == self && recursive) {
        ++rec->count;
        return __real_pthread_mutex_trylock(m);
    }
    return EBUSY;
}

int __wrap_pthread_mutex_unlock(pthread_mutex_t* m) {
    int self = t_tid;
    if (self < 0 || !g.active)
        return __real_pthread_mutex_unlock(m);
    int r = __real_pthread_mutex_unlock(m);
    sched::MutexRec* rec = sched::find_mutex(m, false);
    if (rec && rec->owner == self) {
        if (--rec->count == 0)
            rec->owner = -1;
    }
    sched::schedule_point(2, m); // after the release
    return r;
}

#define ATOMIC_WRAP_LOAD(N, T)                                                                                                              \
    T __real___tsan_atomic##N##_load(const volatile T*, int);                                                                               \
    T __wrap___tsan_atomic##N##_load(const volatile T* a, int mo) {                                                                         \
        if (t_tid >= 0 && g.active)                                                                                                         \
            sched::schedule_point(10, (const void*)a);                                                                                      \
        return __real___tsan_atomic##N##_load(a, mo);                                                                                       \
    }
#define ATOMIC_WRAP_STORE(N, T)                                                                                                             \
    void __real___tsan_atomic##N##_store(volatile T*, T, int);                                                                              \
    void __wrap___tsan_atomic##N##_store(volatile T* a, T v, int mo) {                                                                      \
        if (t_tid >= 0 && g.active)                                                                                                         \
            sched::schedule_point(11, (const void*)a);                                                                                      \
        __real___tsan_atomic##N##_store(a, v, mo);                                                                                          \
    }
#define ATOMIC_WRAP_RMW(N, T, OP)                                                                                                           \
    T __real___tsan_atomic##N##_##OP(volatile T*, T, int);                                                                                  \
    T __wrap___tsan_atomic##N##_##OP(volatile T* a, T v, int mo) {                                                                          \
        if (t_tid >= 0 && g.active)                                                                                                         \
            sched::schedule_point(12, (const void*)a);                                                                                      \
        return __real___tsan_atomic##N##_##OP(a, v, mo);                                                                                    \
    }
#define ATOMIC_WRAP_CAS(N, T, KIND)                                                                                                         \
    int __real___tsan_atomic##N##_compare_exchange_##KIND(volatile T*, T*, T, int, int);                                                    \
    int __wrap___tsan_atomic##N##_compare_exchange_##KIND(volatile T* a, T* c, T v, int mo, int fmo) {                                      \
        if (t_tid >= 0 && g.active)                                                                                                         \
            sched::schedule_point(13, (const void*)a);                                                                                      \
        return __real___tsan_atomic##N##_compare_exchange_##KIND(a, c, v, mo, fmo);                                                         \
    }

ATOMIC_WRAP_LOAD(8, unsigned char)
ATOMIC_WRAP_STORE(8, unsigned char)
ATOMIC_WRAP_RMW(8, unsigned char, exchange)
ATOMIC_WRAP_RMW(8, unsigned char, fetch_add)
ATOMIC_WRAP_RMW(8, unsigned char, fetch_sub)
ATOMIC_WRAP_RMW(8, unsigned char, fetch_and)
ATOMIC_WRAP_RMW(8, unsigned char, fetch_or)
ATOMIC_WRAP_RMW(8, unsigned char, fetch_xor)
ATOMIC_WRAP_RMW(8, unsigned char, fetch_nand)
ATOMIC_WRAP_CAS(8, unsigned char, strong)
ATOMIC_WRAP_CAS(8, unsigned char, weak)
ATOMIC_WRAP_LOAD(16, unsigned short)
ATOMIC_WRAP_STORE(16, unsigned short)
ATOMIC_WRAP_RMW(16, unsigned short, exchange)
ATOMIC_WRAP_RMW(16, unsigned short, fetch_add)
ATOMIC_WRAP_RMW(16, unsigned short, fetch_sub)
ATOMIC_WRAP_RMW(16, unsigned short, fetch_and)
ATOMIC_WRAP_RMW(16, unsigned short, fetch_or)
ATOMIC_WRAP_RMW(16, unsigned short, fetch_xor)
ATOMIC_WRAP_RMW(16, unsigned short, fetch_nand)
ATOMIC_WRAP_CAS(16, unsigned short, strong)
ATOMIC_WRAP_CAS(16, unsigned short, weak)
ATOMIC_WRAP_LOAD(32, unsigned int)
ATOMIC_WRAP_STORE(32, unsigned int)
ATOMIC_WRAP_RMW(32, unsigned int, exchange)
ATOMIC_WRAP_RMW(32, unsigned int, fetch_add)
ATOMIC_WRAP_RMW(32, unsigned int, fetch_sub)
ATOMIC_WRAP_RMW(32, unsigned int, fetch_and)
ATOMIC_WRAP_RMW(32, unsigned int, fetch_or)
ATOMIC_WRAP_RMW(32, unsigned int, fetch_xor)
ATOMIC_WRAP_RMW(32, unsigned int, fetch_nand)
ATOMIC_WRAP_CAS(32, unsigned int, strong)
ATOMIC_WRAP_CAS(32, unsigned int, weak)
ATOMIC_WRAP_LOAD(64, unsigned long)
ATOMIC_WRAP_STORE(64, unsigned long)
ATOMIC_WRAP_RMW(64, unsigned long, exchange)
ATOMIC_WRAP_RMW(64, unsigned long, fetch_add)
ATOMIC_WRAP_RMW(64, unsigned long, fetch_sub)
ATOMIC_WRAP_RMW(64, unsigned long, fetch_and)
ATOMIC_WRAP_RMW(64, unsigned long, fetch_or)
ATOMIC_WRAP_RMW(64, unsigned long, fetch_xor)
ATOMIC_WRAP_RMW(64, unsigned long, fetch_nand)
ATOMIC_WRAP_CAS(64, unsigned long, strong)
ATOMIC_WRAP_CAS(64, unsigned long, weak)
}
