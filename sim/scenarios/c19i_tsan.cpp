// C19I — the interrupt controller alone under two or three scheduled threads (component level of C19).
// The facade scenario (c19_tsan.cpp) judges what a firmware and a host observe; a request bit that
// disappears from the controller's pending register is invisible there as long as some later send
// re-raises it. Here the ICU object itself is driven: host threads trigger their own request bits,
// the "DSP" thread triggers and acknowledges a disjoint set of bits, rewrites enable masks and reads
// the pending register; every read and the final register are judged bit by bit.
//   bits of a host thread are only ever set           -> monotone: 1 once a trigger has returned
//   bits of the DSP thread are touched by it alone     -> exact, by its own program order
//   handler calls                                      -> one per (triggered bit, line whose static mask has it)
#include <set>
#include <thread>
#include "../core/common.h"
#include "../sched/sched.h"
#include "icu.h"

namespace sim {
namespace {

constexpr u16 DSP_BITS = 0x000F;
const u16 kHostBits[2] = {0x03F0, 0xFC00};

struct Ev {
    u64 invoked, returned;
    u8 thread, kind; // 0 trigger, 1 ack, 2 read
    u16 bits;        // argument, or the value read
};

struct Shared {
    Teakra::ICU icu;
    const Plan* plan = nullptr;
    std::vector<Ev> ev[3];
    std::vector<u32> handler[3]; // lines signalled, per calling thread
    std::vector<u32> vhandler[3];
    u16 dsp_model = 0; // DSP-owned bits by program order
};

void deadlock_handler() {
    Outcome o;
    o.cls = "C19.deadlock";
    o.detail = sched::deadlock_info();
    o.hash = sched::trace_hash();
    emergency_finish(o);
}

void worker(Shared* sh, int tid) {
    sched::thread_enter(tid);
    std::string me = "t" + std::to_string(tid);
    auto& icu = sh->icu;
    for (auto& s : sh->plan->steps) {
        if (s.op != me)
            continue;
        s64 k = s.arg(0) % 4;
        u16 arg = (u16)s.arg(1);
        if (tid == 0) {
            if (k == 0) {
                u16 b = (u16)(arg & DSP_BITS);
                u64 i = sched::seq();
                icu.Trigger(b);
                sh->dsp_model |= b;
                sh->ev[0].push_back(Ev{i, sched::seq(), 0, 0, b});
            } else if (k == 1) {
                u16 b = (u16)(arg & DSP_BITS);
                u64 i = sched::seq();
                icu.Acknowledge(b);
                sh->dsp_model &= (u16)~b;
                sh->ev[0].push_back(Ev{i, sched::seq(), 0, 1, b});
            } else if (k == 2) {
                u64 i = sched::seq();
                u16 v = icu.GetRequest();
                sh->ev[0].push_back(Ev{i, sched::seq(), 0, 2, v});
                // the DSP-owned bits are exact at this point
                if ((v & DSP_BITS) != sh->dsp_model)
                    sh->ev[0].back().kind = 3; // flagged; reported by the history check
            } else {
                // rewrite an enable mask with the value it already has (configuration traffic that changes nothing)
                u32 line = (u32)(arg % 3);
                icu.SetEnable(line, icu.GetEnable(line));
            }
        } else {
            u16 own = kHostBits[tid - 1];
            if (k <= 1) {
                u16 b = (u16)(1u << (arg % 16));
                if (!(b & own))
                    b = (u16)(own & (u16)(~own + 1)); // lowest own bit
                if (k == 1 && (arg & 0x100))
                    b |= (u16)(own & (arg >> 1)); // sometimes several bits in one call
                u64 i = sched::seq();
                icu.Trigger(b);
                sh->ev[tid].push_back(Ev{i, sched::seq(), (u8)tid, 0, b});
            } else {
                u64 i = sched::seq();
                u16 v = icu.GetRequest();
                sh->ev[tid].push_back(Ev{i, sched::seq(), (u8)tid, 2, v});
            }
        }
    }
    sched::thread_exit(tid);
}

class C19I : public Scenario {
public:
    const char* prop() const override {
        return "C19I";
    }
    const char* components_real() const override {
        return "ICU (src/icu.h) alone: request register, enable masks, Trigger/Acknowledge/GetRequest/SetEnable, handler dispatch; "
               "real std::thread threads; ThreadSanitizer runtime";
    }
    const char* components_stub() const override {
        return "thread scheduling (seeded serialising scheduler), the threads' scripts, the core (handlers only count)";
    }
    const char* nontrivial_rule() const override {
        return "non-trivial if at least 5 thread switches happened, at least one trigger of a host thread overlapped an operation of "
               "the DSP thread, and the history check ran; distinct = distinct (plan shape hash, schedule trace hash)";
    }
    std::pair<int, int> pool_need() const override {
        return {1, 0}; // forces fork isolation (deadlock handler ends the child)
    }
    std::vector<std::pair<std::string, s64>> simplest_knobs() const override {
        return {{"hosts", 1}, {"pct", 0}, {"en0", 0}, {"en1", 0}, {"en2", 0}, {"env", 0}};
    }

    Plan generate(u64 seed, const Tier& tier) override {
        Rng r(seed);
        Plan p;
        int hosts = (int)r.range(1, 2);
        p.set_knob("hosts", hosts);
        p.set_knob("sched_seed", (s64)(r.next() & 0xFFFFFFFF));
        const int perm[] = {50, 150, 300, 500, 800};
        p.set_knob("switch", (s64)r.pick(perm));
        p.set_knob("pct", (s64)(r.chance(1, 4) ? r.range(1, 3) : 0));
        for (int i = 0; i < 3; ++i)
            p.set_knob("en" + std::to_string(i), (s64)(r.chance(1, 3) ? 0 : (r.next() & 0xFFFF)));
        p.set_knob("env", (s64)(r.chance(1, 2) ? 0 : (r.next() & 0xFFFF)));
        int n = (int)r.range(6, tier.thorough ? 80 : 40);
        for (int i = 0; i < n; ++i) {
            int t = (int)r.below(1 + (u64)hosts);
            p.add("t" + std::to_string(t), {(s64)r.below(4), (s64)(r.next() & 0xFFFF)});
        }
        return p;
    }

    Outcome execute(const Plan& plan) override {
        Outcome out;
        Hasher log;
        Shared sh;
        sh.plan = &plan;
        const int hosts = (int)std::max<s64>(1, std::min<s64>(plan.knob("hosts", 1), 2));
        u16 en[3];
        for (int i = 0; i < 3; ++i) {
            en[i] = (u16)plan.knob("en" + std::to_string(i), 0);
            sh.icu.SetEnable((u32)i, en[i]);
        }
        const u16 env = (u16)plan.knob("env", 0);
        sh.icu.SetEnableVectored(env);
        sh.icu.SetInterruptHandler([&sh](u32 line) { sh.handler[sched::self() < 0 ? 0 : sched::self()].push_back(line); },
                                   [&sh](u32 addr, bool) { sh.vhandler[sched::self() < 0 ? 0 : sched::self()].push_back(addr); });
        sched::Config cfg;
        cfg.seed = (u64)plan.knob("sched_seed", 1);
        cfg.switch_permille = (int)plan.knob("switch", 300);
        cfg.pct_depth = (int)plan.knob("pct", 0);
        cfg.pct_horizon = 400;
        sched::begin(cfg, 1 + hosts);
        sched::set_deadlock_handler(&deadlock_handler);
        std::vector<std::thread> th;
        for (int t = 0; t <= hosts; ++t)
            th.emplace_back(worker, &sh, t);
        sched::start();
        for (auto& x : th)
            x.join();
        sched::finish();
        out.faults_configured["ctx-preempt"] += sched::points();
        out.faults_fired["ctx-preempt"] += sched::switches();
        out.probes["schedule_points"] += sched::points();
        out.probes["thread_switches"] += sched::switches();
        out.probes["lock_contended"] += sched::contended();
        log.add(sched::trace_hash());

        // ---- history
        std::vector<Ev> trig; // host triggers
        for (int t = 1; t <= hosts; ++t)
            for (auto& e : sh.ev[t])
                if (e.kind == 0)
                    trig.push_back(e);
        bool overlap = false;
        for (auto& e : trig)
            for (auto& d : sh.ev[0])
                if (e.invoked < d.returned && d.invoked < e.returned)
                    overlap = true;
        u16 ever = 0;
        for (auto& e : trig)
            ever |= e.bits;
        auto judge_read = [&](const Ev& rd) {
            if (rd.kind == 3) {
                out.violate("C19.pending-bit", fmt("the DSP thread read pending 0x%04x; its own bits (mask 0x000f, touched by no other thread) must read "
                                                   "0x%04x by its program order", rd.bits, (unsigned)(sh.dsp_model & DSP_BITS)));
                return;
            }
            for (int b = 4; b < 16 && out.ok(); ++b) {
                u16 m = (u16)(1u << b);
                bool must1 = false, may1 = false;
                for (auto& e : trig) {
                    if (!(e.bits & m))
                        continue;
                    if (e.returned <= rd.invoked)
                        must1 = true;
                    if (e.invoked < rd.returned)
                        may1 = true;
                }
                bool is1 = (rd.bits & m) != 0;
                if (must1 && !is1)
                    out.violate("C19.pending-bit", fmt("thread %d read pending 0x%04x: bit %d was triggered by a call that had returned, nobody "
                                                       "acknowledges it, yet it reads 0", rd.thread, rd.bits, b));
                else if (!may1 && is1)
                    out.violate("C19.pending-bit", fmt("thread %d read pending 0x%04x: bit %d reads 1 before any trigger of it was invoked", rd.thread,
                                                       rd.bits, b));
            }
        };
        for (int t = 0; t <= hosts && out.ok(); ++t)
            for (auto& e : sh.ev[t])
                if ((e.kind == 2 || e.kind == 3) && out.ok())
                    judge_read(e);
        if (out.ok()) {
            u16 fin = sh.icu.GetRequest();
            u16 want = (u16)((sh.dsp_model & DSP_BITS) | ever);
            log.add(fin);
            if (fin != want)
                out.violate("C19.pending-bit", fmt("after all threads finished the pending register reads 0x%04x; bits triggered and never acknowledged "
                                                   "plus the DSP thread's own bits give 0x%04x (lost 0x%04x, invented 0x%04x)", fin, want,
                                                   (unsigned)(want & ~fin), (unsigned)(fin & ~want)));
        }
        if (out.ok()) {
            // handler dispatch: static masks, so the number of signals per line is exact
            u64 want_line[3] = {0, 0, 0}, got_line[3] = {0, 0, 0}, want_v = 0, got_v = 0;
            for (int t = 0; t <= hosts; ++t) {
                for (auto& e : sh.ev[t]) {
                    if (e.kind != 0)
                        continue;
                    for (int b = 0; b < 16; ++b) {
                        if (!(e.bits >> b & 1))
                            continue;
                        for (int l = 0; l < 3; ++l)
                            if (en[l] >> b & 1)
                                ++want_line[l];
                        if (env >> b & 1)
                            ++want_v;
                    }
                }
                for (u32 l : sh.handler[t])
                    if (l < 3)
                        ++got_line[l];
                got_v += sh.vhandler[t].size();
            }
            for (int l = 0; l < 3 && out.ok(); ++l)
                if (want_line[l] != got_line[l])
                    out.violate("C19.irq-lost", fmt("line %d was signalled %llu times for %llu triggered bits routed to it", l,
                                                    (unsigned long long)got_line[l], (unsigned long long)want_line[l]));
            if (out.ok() && want_v != got_v)
                out.violate("C19.irq-lost", fmt("the vectored line was signalled %llu times for %llu triggered bits routed to it",
                                                (unsigned long long)got_v, (unsigned long long)want_v));
        }
        if (overlap)
            out.probes["host_trigger_overlapped_dsp_operation"]++;
        out.nontrivial = sched::switches() >= 5 && overlap;
        out.sig = sched::trace_hash();
        out.state_sigs.insert(out.sig);
        out.hash = log.h;
        return out;
    }
};

Registrar reg(new C19I);

} // namespace
} // namespace sim
