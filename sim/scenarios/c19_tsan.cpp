// C19 — the host mailbox/semaphore API is race-free and loses nothing against a running DSP.
// Real threads (one DSP thread executing Run on a firmware-like guest, one or two host threads issuing
// API calls, host handlers running on the DSP thread) under the seeded serialising scheduler of
// sim/sched, compiled with ThreadSanitizer. Oracles: TSan reports under the replayable schedule, the
// scheduler's deadlock detector, and checks over the recorded history (values, order, last value
// observed after the faults stop, handler deliveries).
#include <thread>
#include "../core/box.h"
#include "../guest/firmware.h"
#include "../sched/sched.h"

namespace sim {
namespace {

constexpr u32 MAIN = 0x0100, H0 = 0x0040;

struct Rec {
    u64 seq;  // event number when the call returned (reads, handlers) / was invoked (sends)
    u64 seq0 = 0; // reads: event number when the call was invoked (a read spans [seq0, seq])
    u8 thread; // 0 = DSP thread (handlers), 1.. = host threads
    u8 kind;   // 0 send, 1 recv, 2 handler, 3 poll
    u8 ch;
    u16 value;
};

constexpr u32 H1 = 0x00C0;

void build_firmware(Asm& a, bool irq_driven, bool reconf, bool sem_service, bool timer_irq, bool vectored, bool dispatch) {
    auto service_body = [&]() {
        const int bit[3] = {8, 12, 13};
        for (int ch = 0; ch < 3; ++ch) {
            a.load_r0(MMIO + 0x0D6);
            a.w((u16)(0x9000 | bit[ch] << 8)); // tstb r0, bit   (fz := bit)
            a.brr(6, 2);                       // neq: nothing pending on this channel
            a.load_r0((u16)(MMIO + 0x0C2 + 4 * ch));
            a.mov_imm(op::R1, (u16)(MMIO + 0x0C0 + 4 * ch));
            a.w(op::MOV_R0_TO_MR1); // reply := command
        }
        if (sem_service) {
            a.load_r0(MMIO + 0x0D2);                // semaphores received from the CPU
            a.mov_imm(op::R1, MMIO + 0x0D0).w(op::MOV_R0_TO_MR1); // acknowledge what was seen
            a.mov_imm(op::R1, MMIO + 0x0CC).w(op::MOV_R0_TO_MR1); // and signal it back
        }
        if (reconf)
            a.store_imm(MMIO + 0x0D4, 0); // rewrites the interrupt-disable bits (same value) while the host may be sending
    };
    auto service = [&](bool save) {
        if (save) {
            a.w(op::PUSH_R0).w(op::PUSH_R1);
        }
        if (save && dispatch) {
            // a handler that dispatches on the controller's pending register, as firmware with several sources does: the mailbox
            // is serviced only if its pending bit is set; the bit is acknowledged BEFORE the channels are read, so a send that
            // arrives during the service raises it again
            a.load_r0(MMIO + 0x200);
            a.w((u16)(0x9000 | 14 << 8)); // tstb r0, 14
            u32 patch = a.at;
            a.br(0, 2);                    // neq: the mailbox did not request this entry
            a.store_imm(MMIO + 0x202, 0x4000);
            service_body();
            if (timer_irq)
                a.store_imm(MMIO + 0x20, timer_cfg_word(0, false, false, true));
            a.words[patch + 1] = (u16)a.at;
            a.w(op::POP_R1).w(op::POP_R0);
            return;
        }
        service_body();
        if (save) {
            a.store_imm(MMIO + 0x202, 0x4000);
            if (timer_irq) // each mailbox interrupt arms ONE more timer interrupt: a finite, unrelated second source
                a.store_imm(MMIO + 0x20, timer_cfg_word(0, false, false, true));
            a.w(op::POP_R1).w(op::POP_R0);
        }
    };
    a.org(0).br(MAIN);
    a.org(0x0006).br(H0);
    a.org(0x000E).br(H1);
    a.org(H0);
    service(true);
    a.w(op::RETI);
    // an unrelated, frequent interrupt source: timer 0 on int1, handler acknowledges and returns
    a.org(H1);
    a.w(op::PUSH_R0).w(op::PUSH_R1);
    a.store_imm(MMIO + 0x202, 0x0400);
    a.w(op::POP_R1).w(op::POP_R0);
    a.w(op::RETI);
    a.org(MAIN);
    a.mov_imm(op::SP, 0x0F00);
    a.mov_imm_sttmod(op::MOD3, (u16)((irq_driven ? 0x0180 : 0x0000) | (timer_irq ? 0x0280 : 0) | (irq_driven && vectored ? 0x0800 : 0)));
    if (irq_driven) {
        a.idle();
    } else {
        u32 loop = a.at;
        service(false);
        a.w(op::NOP);
        a.br(loop);
    }
}

struct Shared {
    Box* box = nullptr;
    const Plan* plan = nullptr;
    std::vector<Rec> rec[4];
    std::string dsp_abort;
    int reenter = 0;
};
Shared* g_shared = nullptr;

void deadlock_handler() {
    Outcome o;
    o.cls = "C19.deadlock";
    o.detail = sched::deadlock_info();
    o.hash = sched::trace_hash();
    emergency_finish(o);
}

class C19 : public Scenario {
public:
    const char* prop() const override {
        return "C19";
    }
    const char* components_real() const override {
        return "Apbp x2 (mutexes), ICU (mutex), Interpreter interrupt latches (atomics), Processor::Run, Teakra facade, real "
               "std::thread threads; ThreadSanitizer runtime";
    }
    const char* components_stub() const override {
        return "thread scheduling (seeded serialising scheduler at every mutex/atomic operation via -Wl,--wrap), host threads' scripts, "
               "host interrupt handlers";
    }
    const char* nontrivial_rule() const override {
        return "non-trivial if at least 20 thread switches happened, at least one lock request found its mutex held by another thread "
               "or at least 5 commands were echoed by the guest, and the history check ran; distinct = distinct (plan shape hash, "
               "schedule trace hash)";
    }
    std::pair<int, int> pool_need() const override {
        return {1, 0};
    }
    std::vector<std::pair<std::string, s64>> simplest_knobs() const override {
        return {{"timer_irq", 0}, {"reenter", 0}, {"reconf", 0}, {"sem", 0}, {"pct", 0}, {"stall_len", 0}, {"hosts", 1}, {"vectored", 0}, {"dispatch", 0}};
    }

    Plan generate(u64 seed, const Tier& tier) override {
        Rng r(seed);
        Plan p;
        p.set_knob("irq_driven", (s64)r.chance(1, 2));
        p.set_knob("reenter", (s64)r.below(4));
        p.set_knob("reconf", (s64)r.chance(1, 3));
        p.set_knob("sem", (s64)r.chance(1, 2));
        p.set_knob("timer_irq", (s64)r.chance(1, 2));
        p.set_knob("vectored", (s64)r.chance(1, 3)); // the mailbox interrupt arrives on the vectored line (target address + context bit)
        p.set_knob("dispatch", (s64)r.chance(1, 3)); // the handler services the mailbox only if its pending bit is set in the controller
        p.set_knob("timer_period", (s64)r.range(3, 60));
        p.set_knob("timer_periodic", (s64)r.chance(1, 4));
        int hosts = tier.thorough && r.chance(1, 2) ? 2 : (r.chance(1, 4) ? 2 : 1);
        p.set_knob("hosts", hosts);
        p.set_knob("sched_seed", (s64)(r.next() & 0xFFFFFFFF));
        const int perm_dsp[] = {10, 30, 100, 300}, perm_host[] = {100, 300, 600, 900};
        p.set_knob("switch", (s64)r.pick(perm_dsp));      // switch probability (permille) at a DSP-thread schedule point
        p.set_knob("switch_host", (s64)r.pick(perm_host)); // ... at a host-thread schedule point
        p.set_knob("pct", (s64)(r.chance(1, 4) ? r.range(1, 3) : 0));
        bool stall = r.chance(1, 5);
        p.set_knob("stall_tid", stall ? (s64)r.below(1 + (u64)hosts) : -1);
        p.set_knob("stall_from", (s64)r.below(1500));
        p.set_knob("stall_len", stall ? (s64)r.range(20, 200) : 0);
        int nd = (int)r.range(4, 14);
        for (int i = 0; i < nd; ++i)
            p.add("dsp", {(s64)r.range(20, tier.thorough ? 400 : 250)});
        for (int h = 1; h <= hosts; ++h) {
            int n = (int)r.range(6, tier.thorough ? 80 : 40);
            for (int i = 0; i < n; ++i) {
                int x = (int)r.below(20);
                // each channel has one sending thread so that "send order" is well defined
                s64 ch = hosts == 1 ? (s64)r.below(3) : (h == 1 ? (s64)r.below(2) : 2);
                if (x < 8)
                    p.add("h" + std::to_string(h), {0, ch, (s64)r.chance(1, 3)}); // send (optionally only when empty)
                else if (x < 13)
                    p.add("h" + std::to_string(h), {1, (s64)r.below(3), 0}); // recv when ready
                else if (x < 15)
                    p.add("h" + std::to_string(h), {2, (s64)r.below(3), 0}); // polls
                else if (x < 17)
                    p.add("h" + std::to_string(h), {3, (s64)(1u << r.below(16)), 0}); // SetSemaphore
                else if (x < 18)
                    p.add("h" + std::to_string(h), {4, (s64)(r.next() & 0xFFFF), 0}); // ClearSemaphore
                else if (x < 19)
                    p.add("h" + std::to_string(h), {5, (s64)(r.chance(1, 2) ? 0 : (r.next() & 0xFFFF)), 0}); // MaskSemaphore
                else
                    p.add("h" + std::to_string(h), {6, 0, 0}); // GetSemaphore
            }
            // end the script with sends half of the time: a request lost on the LAST send is never rescued by later traffic
            if (r.chance(1, 2)) {
                int tail = (int)r.range(1, 3);
                for (int i = 0; i < tail; ++i)
                    p.add("h" + std::to_string(h), {0, hosts == 1 ? (s64)r.below(3) : (h == 1 ? (s64)r.below(2) : 2), 0});
            }
        }
        return p;
    }

    static void dsp_thread(Shared* sh) {
        sched::thread_enter(0);
        for (auto& s : sh->plan->steps) {
            if (s.op != "dsp")
                continue;
            try {
                sh->box->t->Run((unsigned)std::min<s64>(s.arg(0), 400));
            } catch (const VerifAssert& e) {
                sh->dsp_abort = e.file + ":" + std::to_string(e.line);
                break;
            }
        }
        sched::thread_exit(0);
    }

    static void host_thread(Shared* sh, int h) {
        sched::thread_enter(h);
        auto& t = *sh->box->t;
        std::string me = "h" + std::to_string(h);
        u16 next_seq[3] = {1, 1, 1};
        for (auto& s : sh->plan->steps) {
            if (s.op != me)
                continue;
            u8 ch = (u8)(s.arg(1) % 3);
            // every channel has exactly one sending thread (so that "send order" is defined), whatever the plan says:
            // the contract is enforced here, not only in the generator, so that shrinking cannot leave it
            const int nhosts = (int)std::max<s64>(1, std::min<s64>(sh->plan->knob("hosts", 1), 2));
            u8 send_ch = nhosts == 1 ? ch : (h == 1 ? (u8)(ch % 2) : (u8)2);
            switch (s.arg(0) % 7) {
            case 0: {
                ch = send_ch;
                if (s.arg(2) && !t.SendDataIsEmpty(ch))
                    break;
                u16 v = (u16)((ch + 1) << 12 | (next_seq[ch]++ & 0xFFF));
                sh->rec[h].push_back(Rec{sched::seq(), 0, (u8)h, 0, ch, v});
                t.SendData(ch, v);
                break;
            }
            case 1:
                if (t.RecvDataIsReady(ch)) {
                    u64 invoked = sched::seq();
                    u16 v = t.RecvData(ch);
                    sh->rec[h].push_back(Rec{sched::seq(), invoked, (u8)h, 1, ch, v});
                }
                break;
            case 2:
                (void)t.SendDataIsEmpty(ch);
                (void)t.RecvDataIsReady(ch);
                (void)t.PeekRecvData(ch);
                break;
            case 3:
                t.SetSemaphore((u16)s.arg(1));
                break;
            case 4:
                t.ClearSemaphore((u16)s.arg(1));
                break;
            case 5:
                t.MaskSemaphore((u16)s.arg(1));
                break;
            default:
                (void)t.GetSemaphore();
                break;
            }
        }
        sched::thread_exit(h);
    }

    Outcome execute(const Plan& plan) override {
        Outcome out;
        Hasher log;
        auto boxp = BoxPool::take(false);
        Box& b = *boxp;
        Shared sh;
        sh.box = &b;
        sh.plan = &plan;
        sh.reenter = (int)plan.knob("reenter", 0);
        g_shared = &sh;
        int hosts = (int)std::max<s64>(1, std::min<s64>(plan.knob("hosts", 1), 2));
        // ---- set-up, all of it before the threads start (happens-before by thread creation)
        b.reset();
        auto& t = *b.t;
        for (u8 ch = 0; ch < 3; ++ch) {
            t.SetRecvDataHandler(ch, [&sh, ch]() {
                // runs on whichever thread performed the send (the DSP thread for guest stores)
                std::vector<Rec>& mine = sh.rec[sched::self() < 0 ? 3 : sched::self()];
                mine.push_back(Rec{sched::seq(), 0, 0, 2, ch, 0});
                if (sh.reenter == 1) {
                    if (sh.box->t->RecvDataIsReady(ch)) {
                        u64 invoked = sched::seq();
                        u16 v = sh.box->t->RecvData(ch);
                        mine.push_back(Rec{sched::seq(), invoked, 0, 1, ch, v});
                    }
                } else if (sh.reenter == 2) {
                    (void)sh.box->t->PeekRecvData(ch);
                    (void)sh.box->t->GetSemaphore();
                    (void)sh.box->t->SendDataIsEmpty(ch);
                } else if (sh.reenter == 3) {
                    // the host's callback touches the semaphores in both directions from inside the handler
                    sh.box->t->SetSemaphore((u16)(1u << ch));
                    sh.box->t->ClearSemaphore((u16)(0x100u << ch));
                    (void)sh.box->t->RecvDataIsReady((u8)((ch + 1) % 3));
                }
            });
        }
        t.SetSemaphoreHandler([&sh]() {
            // may run on a host thread too: unmasking a pending semaphore interrupts the host from MaskSemaphore
            sh.rec[sched::self() < 0 ? 3 : sched::self()].push_back(Rec{sched::seq(), 0, 0, 2, 3, 0});
            if (sh.reenter)
                (void)sh.box->t->GetSemaphore();
        });
        Asm a;
        bool irq_driven = plan.knob("irq_driven", 0) != 0;
        const bool timer_irq = plan.knob("timer_irq", 0) != 0;
        const bool vectored = irq_driven && plan.knob("vectored", 0) != 0;
        const bool dispatch = irq_driven && plan.knob("dispatch", 0) != 0;
        build_firmware(a, irq_driven, plan.knob("reconf", 0) != 0, plan.knob("sem", 0) != 0, timer_irq, vectored, dispatch);
        if (dispatch)
            out.probes["handler_dispatches_on_pending_bits"]++;
        b.load(a.words);
        for (u16 o = 0x206; o <= 0x20C; o += 2)
            t.MMIOWrite(o, 0);
        t.MMIOWrite(0x206, irq_driven && !vectored ? 0x4000 : 0);
        t.MMIOWrite(0x20C, vectored ? 0x4000 : 0);
        for (u16 i = 0; i < 16; ++i) {
            t.MMIOWrite((u16)(0x212 + i * 4), 0);
            t.MMIOWrite((u16)(0x214 + i * 4), (u16)(vectored ? H0 : 0));
        }
        if (vectored)
            out.probes["mailbox_on_vectored_line"]++;
        t.MMIOWrite(0x20, 0x0100);
        t.MMIOWrite(0x30, 0x0100);
        if (timer_irq) {
            t.MMIOWrite(0x208, 0x0400); // IRQ 10 (timer 0) -> int1
            // a periodic source must leave the guest time to run: its handler takes about ten cycles, so a period below
            // that would starve the main loop for ever (a livelock of the guest program, not of the emulator)
            u16 period = (u16)plan.knob("timer_period", 23);
            if (plan.knob("timer_periodic", 0) && period < 40)
                period = (u16)(period + 40);
            t.MMIOWrite(0x24, period);
            t.MMIOWrite(0x26, 0);
            // single shot, armed once here and then again by every mailbox interrupt (a periodic timer would rescue a lost
            // mailbox request at its next expiry and hide it)
            t.MMIOWrite(0x20, timer_cfg_word(plan.knob("timer_periodic", 0) ? 1 : 0, false, false, true));
        }
        // ---- the simulated threads
        sched::Config cfg;
        cfg.seed = (u64)plan.knob("sched_seed", 1);
        cfg.switch_permille = (int)plan.knob("switch", 100);
        for (int h = 1; h <= hosts; ++h)
            cfg.switch_permille_tid[h] = (int)plan.knob("switch_host", 300);
        cfg.pct_depth = (int)plan.knob("pct", 0);
        cfg.pct_horizon = 3000;
        cfg.stall_tid = (int)plan.knob("stall_tid", -1);
        if (cfg.stall_tid > hosts)
            cfg.stall_tid = -1;
        cfg.stall_from = (u64)plan.knob("stall_from", 0);
        cfg.stall_len = (u64)plan.knob("stall_len", 0);
        sched::set_deadlock_handler(&deadlock_handler);
        sched::begin(cfg, 1 + hosts);
        sched::set_deadlock_handler(&deadlock_handler);
        std::vector<std::thread> th;
        th.emplace_back(dsp_thread, &sh);
        for (int h = 1; h <= hosts; ++h)
            th.emplace_back(host_thread, &sh, h);
        sched::start();
        for (auto& x : th)
            x.join();
        sched::finish();
        out.faults_configured["ctx-preempt"] += sched::points();
        out.faults_fired["ctx-preempt"] += sched::switches();
        if (cfg.stall_tid >= 0 && cfg.stall_len) {
            out.faults_configured["stall"]++;
            if (sched::stalls())
                out.faults_fired["stall"]++;
        }
        out.probes["schedule_points"] += sched::points();
        out.probes["thread_switches"] += sched::switches();
        out.probes["lock_contended"] += sched::contended();
        log.add(sched::trace_hash());
        const u64 n_switches = sched::switches(), n_contended = sched::contended(), trace = sched::trace_hash();
        if (!sh.dsp_abort.empty()) {
            out.aborted = true;
            out.abort_site = sh.dsp_abort;
        }
        // ---- faults have stopped: the DSP runs alone for a bounded time. It still runs as a scheduled
        // thread (the only one), so that a handler that deadlocks against its own caller is detected
        // instead of hanging the process.
        if (!out.aborted) {
            sched::Config quiet;
            quiet.seed = cfg.seed + 1;
            quiet.switch_permille = 0;
            quiet.continue_seq = true;
            sched::begin(quiet, 1);
            sched::set_deadlock_handler(&deadlock_handler);
            std::thread tail([&sh]() {
                sched::thread_enter(0);
                try {
                    sh.box->t->Run(2500);
                } catch (const VerifAssert& e) {
                    sh.dsp_abort = e.file + ":" + std::to_string(e.line);
                }
                sched::thread_exit(0);
            });
            sched::start();
            tail.join();
            sched::finish();
            if (!sh.dsp_abort.empty()) {
                out.aborted = true;
                out.abort_site = sh.dsp_abort;
            }
        }
        out.sim_cycles += 2500;
        // ---- history checks
        std::vector<Rec> all;
        for (auto& v : sh.rec)
            all.insert(all.end(), v.begin(), v.end());
        std::stable_sort(all.begin(), all.end(), [](const Rec& x, const Rec& y) { return x.seq < y.seq; });
        u16 last_sent[3] = {0, 0, 0}, last_recv[3] = {0, 0, 0};
        const bool single_reader = hosts == 1 && sh.reenter != 1;
        u64 handler_calls[4] = {0, 0, 0, 0}, echoed = 0;
        std::set<u16> sent[3];
        for (auto& r : all) {
            log.add(r.seq);
            log.add((u64)r.kind << 24 | (u64)r.ch << 16 | r.value);
            if (r.kind == 0) {
                sent[r.ch].insert(r.value);
                last_sent[r.ch] = r.value;
            } else if (r.kind == 2) {
                handler_calls[r.ch]++;
            } else if (r.kind == 1 && out.ok()) {
                ++echoed;
                // a reply is the echo of a command: it must be a value that was sent on that channel before ...
                if (!sent[r.ch].count(r.value))
                    out.violate("C19.value-invented", fmt("host read 0x%04x from reply channel %u at event %llu; no such value had been sent on that "
                                                          "channel (sent so far: %zu values, last 0x%04x)",
                                                          r.value, r.ch, (unsigned long long)r.seq, sent[r.ch].size(), last_sent[r.ch]));
                // ... and values are seen in send order. With a single reader that reads only when the ready
                // flag is set, every read belongs to a different send, so the echoes are strictly increasing.
                else if (single_reader && r.value == last_recv[r.ch])
                    out.violate("C19.duplicate", fmt("the only reader of reply channel %u read 0x%04x twice although it reads only when the "
                                                     "data-ready flag is set and every value is sent once (stale data delivered as fresh)",
                                                     r.ch, r.value));
                else {
                    // order: a read may only be compared with reads that had RETURNED before it was invoked
                    // (two host threads may read the same channel concurrently; their records interleave)
                    for (auto& e : all) {
                        if (&e == &r)
                            break;
                        if (e.kind == 1 && e.ch == r.ch && e.seq < r.seq0 && r.value < e.value) {
                            out.violate("C19.reordered", fmt("a read of reply channel %u that started at event %llu returned 0x%04x although an earlier "
                                                             "read (finished at event %llu) had already returned 0x%04x", r.ch,
                                                             (unsigned long long)r.seq0, r.value, (unsigned long long)e.seq, e.value));
                            break;
                        }
                    }
                }
                last_recv[r.ch] = r.value;
            }
        }
        if (out.ok() && !out.aborted) {
            for (u8 ch = 0; ch < 3 && out.ok(); ++ch) {
                if (!last_sent[ch])
                    continue;
                // the last value sent is eventually observed by the DSP: it has been consumed and echoed
                if (!t.SendDataIsEmpty(ch))
                    out.violate(irq_driven ? "C19.irq-lost" : "C19.last-value-lost",
                                fmt("2500 cycles after the host threads finished, command channel %u still holds an unread value (last sent 0x%04x); "
                                    "the %s guest never saw it",
                                    ch, last_sent[ch], irq_driven ? "interrupt-driven" : "polling"));
                else if (t.PeekRecvData(ch) != last_sent[ch])
                    out.violate("C19.last-value-lost", fmt("the last value sent on channel %u was 0x%04x but the guest's last echo is 0x%04x", ch,
                                                           last_sent[ch], t.PeekRecvData(ch)));
            }
        }
        if (out.ok() && echoed > 0 && handler_calls[0] + handler_calls[1] + handler_calls[2] == 0)
            out.violate("C19.irq-lost", "the guest replied but no host receive handler was ever invoked");
        out.probes["commands_echoed"] += echoed;
        out.probes["host_handler_calls"] += handler_calls[0] + handler_calls[1] + handler_calls[2] + handler_calls[3];
        out.nontrivial = n_switches >= 20 && (n_contended > 0 || echoed >= 3);
        out.sig = trace;
        Hasher sg;
        sg.add(irq_driven);
        sg.add((u64)sh.reenter);
        sg.add(n_contended > 0);
        sg.add((u64)hosts);
        sg.add((u64)cfg.pct_depth);
        out.state_sigs.insert(sg.h);
        out.hash = log.h;
        g_shared = nullptr;
        return out;
    }
};

Registrar reg(new C19);

} // namespace
} // namespace sim
