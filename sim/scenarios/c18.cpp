// C18 — no guest program or register write makes the emulator touch memory out of bounds.
// The invariant (ASan + UBSan + _GLIBCXX_ASSERTIONS + bounds observer + outcome classes) is live in
// every simulated run of every scenario; this scenario adds the chaos workload: whole-system runs of
// random and control-flow-biased programs from random register states, all 16-bit values to every MMIO
// offset from host and guest, random DMA/AHBM configurations incl. 32-bit addresses, in-contract host
// calls, with slice / interrupt / reset faults.
#include "../core/box.h"
#include "../guest/firmware.h"

namespace sim {
namespace {

void randomize_regs(Teakra::RegisterState& r, Rng& g, bool wild_pc) {
    auto bits = [&](int n) -> u16 { return (u16)(g.next() & ((1u << n) - 1)); };
    auto acc = [&]() -> u64 {
        u64 v = g.next() & 0xFFFFFFFFFFull;
        if (g.chance(1, 3))
            v = g.pick(std::vector<u64>{0, 1, 0x7FFFFFFF, 0x80000000, 0xFFFFFFFFFFull, 0x8000000000ull, 0x7FFFFFFFFFull});
        if (v & 0x8000000000ull)
            v |= 0xFFFFFF0000000000ull;
        return v;
    };
    r.pc = (u32)(g.next() & 0x3FFFF);
    if (!wild_pc)
        r.pc &= 0x7FFF;
    r.prpage = g.chance(1, 20) ? bits(4) : 0;
    r.cpc = bits(1);
    r.repc = bits(16);
    r.repcs = bits(16);
    r.rep = g.chance(1, 10);
    r.crep = bits(1);
    r.bcn = (u16)g.below(5);
    r.lp = r.bcn != 0;
    for (auto& f : r.bkrep_stack) {
        f.start = (u32)(g.next() & 0x3FFFF);
        f.end = (u32)(g.next() & 0x3FFFF);
        f.lc = bits(16);
    }
    for (auto& v : r.a)
        v = acc();
    for (auto& v : r.b)
        v = acc();
    r.a1s = acc();
    r.b1s = acc();
    r.ccnta = bits(1);
    r.sat = bits(1);
    r.sata = bits(1);
    r.s = bits(1);
    r.sv = g.chance(1, 2) ? g.pick(std::vector<u16>{0, 1, 15, 16, 31, 32, 39, 40, 41, 47, 48, 63, 64, 0x7FFF, 0x8000, 0xFFFF, 0xFFF0, 0xFFE0, 0xFFD9, 0xFFD8,
                                                    0xFFD7, 0xFFC0, 0xFF80})
                          : bits(16);
    r.fz = bits(1);
    r.fm = bits(1);
    r.fn = bits(1);
    r.fv = bits(1);
    r.fe = bits(1);
    r.fc0 = bits(1);
    r.fc1 = bits(1);
    r.flm = bits(1);
    r.fvl = bits(1);
    r.fr = bits(1);
    r.vtr0 = bits(16);
    r.vtr1 = bits(16);
    for (auto& v : r.x)
        v = bits(16);
    for (auto& v : r.y)
        v = bits(16);
    r.hwm = bits(2);
    for (auto& v : r.p)
        v = (u32)g.next();
    for (auto& v : r.pe)
        v = bits(1);
    for (auto& v : r.ps)
        v = bits(2);
    r.p0h_cbs = bits(16);
    for (auto& v : r.r)
        v = g.chance(1, 4) ? g.pick(std::vector<u16>{0, 1, 0xFFFF, 0x8000, 0x7FFF, 0x87FF}) : bits(16);
    r.mixp = bits(16);
    r.sp = bits(16);
    r.page = bits(8);
    r.pcmhi = bits(2);
    r.r0b = bits(16);
    r.r1b = bits(16);
    r.r4b = bits(16);
    r.r7b = bits(16);
    r.stepi = bits(7);
    r.stepj = bits(7);
    r.modi = bits(9);
    r.modj = bits(9);
    r.stepi0 = bits(16);
    r.stepj0 = bits(16);
    r.stepib = bits(7);
    r.stepjb = bits(7);
    r.modib = bits(9);
    r.modjb = bits(9);
    r.stepi0b = bits(16);
    r.stepj0b = bits(16);
    for (auto& v : r.m)
        v = bits(1);
    for (auto& v : r.br)
        v = bits(1);
    r.stp16 = bits(1);
    r.cmd = bits(1);
    r.epi = bits(1);
    r.epj = bits(1);
    for (int i = 0; i < 4; ++i) {
        r.arstep[i] = bits(3);
        r.arpstepi[i] = bits(3);
        r.arpstepj[i] = bits(3);
        r.aroffset[i] = bits(2);
        r.arpoffseti[i] = bits(2);
        r.arpoffsetj[i] = bits(2);
        r.arrn[i] = bits(3);
        r.arprni[i] = bits(2);
        r.arprnj[i] = bits(2);
    }
    for (auto& v : r.ip)
        v = bits(1);
    r.ipv = bits(1);
    for (auto& v : r.im)
        v = bits(1);
    r.imv = bits(1);
    for (auto& v : r.ic)
        v = bits(1);
    r.nimc = bits(1);
    r.ie = bits(1);
    for (auto& v : r.ou)
        v = bits(1);
    for (auto& v : r.iu)
        v = bits(1);
    for (auto& v : r.ext)
        v = bits(16);
}

// a control-flow and MMIO biased word stream
void biased_program(Asm& a, Rng& g, u32 at, int len) {
    a.org(at);
    u32 end = at + (u32)len;
    while (a.at < end) {
        int x = (int)g.below(40);
        u32 near = (u32)((at + g.below((u64)len + 8)) & 0x3FFFF);
        u32 far = g.chance(1, 2) ? (u32)(g.next() & 0x3FFFF) : (u32)(0x3FFF0 + g.below(16));
        switch (x) {
        case 0:
        case 1:
        case 2:
            a.br(g.chance(3, 4) ? near : far, (u16)g.below(16));
            break;
        case 3:
        case 4:
            a.call(g.chance(3, 4) ? near : far, (u16)g.below(16));
            break;
        case 5:
        case 6:
            a.brr((int)g.below(128), (u16)g.below(16));
            break;
        case 7:
            a.w((u16)(0x1000 | g.below(0x800)));
            break; // callr family
        case 8:
            a.w((u16)(op::RET | g.below(16)));
            break;
        case 9:
            a.w((u16)(op::RETI | g.below(32)));
            break;
        case 10:
            a.rep_imm((u8)g.below(256));
            break;
        case 11:
            a.bkrep_imm((u8)g.below(8), g.chance(3, 4) ? near : far);
            break;
        case 12:
            a.w(g.pick(std::vector<u16>{op::BREAK, op::BKREPSTO_SP, op::BKREPRST_SP, op::CNTX_S, op::CNTX_R, op::BANKR, 0x4B88, 0x4BBF, op::TRAP,
                                        op::EINT, op::DINT, 0xD381, 0xD480, 0xD7F4, 0xD7FC, 0x5EB2, 0x9166, 0x5DD0, 0x5DD1}));
            break;
        case 13:
        case 14:
        case 15: { // store a value into the MMIO window
            u16 off = (u16)(g.chance(1, 2) ? g.below(0x800) : (g.below(0x400) * 2));
            a.store_imm((u16)(MMIO + off), (u16)(g.chance(1, 4) ? g.pick(std::vector<u16>{0x40C0, 0xFFFF, 0, 8, 0x00FF, 0x8000}) : g.next()));
            break;
        }
        case 16:
            a.load_r0((u16)(MMIO + g.below(0x800)));
            break;
        case 17:
        case 18: // mov imm16 -> register / status / config words
            a.w2((u16)(0x5E00 | g.below(32)), (u16)g.next());
            break;
        case 19:
            a.w2((u16)(0x0030 | g.below(8)), (u16)g.next());
            break;
        case 20:
            a.w2((u16)(0x0008 | g.below(6)), (u16)g.next());
            break; // ar/arp
        case 21:
            a.w((u16)(0x5E40 | g.below(32)));
            break; // push reg
        case 22:
            a.w((u16)(0x5E60 | g.below(32)));
            break; // pop reg
        case 23:
            a.w(g.pick(std::vector<u16>{0x88C7, 0x89C7, 0x8AC7, 0x8CC7, 0x8DC7, 0x8EC7, 0x8FC7, 0x80C7, 0x82C7, 0xD3D8, 0xD3DA, 0xD3DF}));
            break;
        case 24:
            a.w2(0x0028 | (u16)g.below(8), (u16)g.next());
            break; // tstb <sttmod>, imm16
        case 25: // shift value register and shifts by it
            a.w2((u16)(0x5E00 | op::SV), g.pick(std::vector<u16>{0, 1, 15, 16, 31, 32, 39, 40, 41, 48, 64, 0x7FFF, 0x8000, 0xFFFF, 0xFFE0, 0xFFD9, 0xFFD8, 0xFFD7,
                                                                 0xFFC0, 0xFF80}));
            a.w((u16)(0xD280 | g.below(4) << 10 | g.below(4) << 5 | (g.chance(1, 2) ? 0 : g.below(16)))); // shfc ab, ab, cond
            break;
        case 26:
            if (g.chance(1, 2))
                a.w((u16)(0x0100 | g.below(32) | g.below(4) << 5)); // movs reg, ab (shift by sv)
            else
                a.w((u16)(0x9240 | g.below(4) << 10 | g.below(4) << 7 | g.below(64))); // shfi ab, ab, imm6s
            break;
        default:
            a.w((u16)g.next());
            break;
        }
    }
}

class C18 : public Scenario {
public:
    const char* prop() const override {
        return "C18";
    }
    const char* components_real() const override {
        return "whole teakra library incl. all instruction handlers reachable from random opcodes, MMIO with every 16-bit value, "
               "Dma/Ahbm with arbitrary configurations, under ASan + UBSan + _GLIBCXX_ASSERTIONS and the bounds observer in "
               "SharedMemory::ReadWord/WriteWord";
    }
    const char* components_stub() const override {
        return "host CPU (plan steps), external memory (sparse, access budget), audio sink, host interrupt handlers";
    }
    const char* nontrivial_rule() const override {
        return "non-trivial if at least 50 guest instructions executed and at least one MMIO write or DMA start reached a peripheral; "
               "distinct = distinct (plan shape hash, signature of outcome class x pc region x peripherals touched)";
    }
    std::pair<int, int> pool_need() const override {
        return {1, 1};
    }
    std::vector<std::pair<std::string, s64>> simplest_knobs() const override {
        return {{"user_mem", 0}};
    }

    Plan generate(u64 seed, const Tier& tier) override {
        Rng r(seed);
        Plan p;
        p.set_knob("user_mem", (s64)r.chance(1, 6));
        int n = (int)r.range(3, tier.thorough ? 60 : 30);
        // always start with a program and a register state
        p.add("prog", {(s64)(r.chance(1, 6) ? 0x3FFC0 + r.below(0x30) : r.below(0x3F000)), (s64)(r.next() & 0xFFFFFF), (s64)r.range(8, 200), (s64)r.below(3)});
        if (r.chance(2, 3))
            p.add("regs", {(s64)(r.next() & 0xFFFFFF), (s64)r.chance(1, 4)});
        for (int i = 0; i < n; ++i) {
            int x = (int)r.below(40);
            if (x < 10)
                p.add("run", {(s64)(r.chance(1, 4) ? r.range(0, 5) : r.range(1, 3000))});
            else if (x < 13)
                p.add("prog", {(s64)(r.chance(1, 6) ? 0x3FFC0 + r.below(0x30) : r.below(0x3F000)), (s64)(r.next() & 0xFFFFFF), (s64)r.range(4, 120), (s64)r.below(3)});
            else if (x < 15)
                p.add("regs", {(s64)(r.next() & 0xFFFFFF), (s64)r.chance(1, 4)});
            else if (x < 17)
                p.add("setpc", {(s64)(r.chance(1, 8) ? 0x3FFF0 + r.below(16) : r.below(0x40000))});
            else if (x < 25)
                p.add("mmiow", {(s64)r.below(0x10000), (s64)(r.chance(1, 4) ? r.pick(std::vector<int>{0, 1, 7, 8, 9, 0xFF, 0xFFFF, 0x40C0, 0x8000}) : (r.next() & 0xFFFF))});
            else if (x < 27)
                p.add("mmior", {(s64)r.below(0x10000)});
            else if (x < 30) { // DMA with arbitrary configuration, biased to the edges of the value space
                auto addr = [&]() -> s64 {
                    switch (r.below(5)) {
                    case 0:
                        return (s64)(0x1FFC0 + r.below(0x50)); // around the end of data memory
                    case 1:
                        return (s64)r.below(0x100);
                    case 2:
                        return (s64)(r.next() & 0x1FFFF);
                    case 3:
                        return (s64)(0xFFF0 + r.below(0x20)); // around the bank boundary
                    default:
                        return (s64)(r.next() & 0xFFFFFFFF);
                    }
                };
                auto small = [&](int cap) -> s64 { return r.chance(1, 2) ? (s64)r.below(3) : (s64)r.below((u64)cap); };
                auto step = [&]() -> s64 { return r.chance(2, 3) ? (s64)r.pick(std::vector<int>{0, 1, 1, 1, 2, 0xFFFF, 0x8000}) : (s64)(r.next() & 0xFFFF); };
                s64 st0 = step(), st1 = r.chance(1, 2) ? st0 : step();
                p.add("dma", {(s64)r.below(16), addr(), addr(), r.chance(1, 4) ? (s64)r.range(0x20, 0x200) : small(40), small(8), small(4), st0, st1,
                              (s64)r.pick(std::vector<int>{0, 0, 0, 7, 7, 1, 5, 3, 15}), (s64)r.pick(std::vector<int>{0, 0, 0, 7, 7, 1, 5, 2, 15}),
                              (s64)r.below(2), (s64)(r.next() & 0x3FF)});
            }
            else if (x < 32)
                p.add("host", {(s64)r.below(12), (s64)(r.next() & 0xFFFFF), (s64)(r.next() & 0xFFFF)});
            else if (x < 34)
                p.add("trig", {(s64)(r.next() & 0xFFFF)});
            else if (x < 35)
                p.add("reset", {});
            else if (x < 38)
                p.add("dataw", {(s64)r.below(0x10000), (s64)(r.next() & 0xFFFF), (s64)r.below(2)});
            else
                p.add("ahbm", {(s64)(r.next() & 0xFFFFFFFF), (s64)(r.next() & 0xFFFFFFFF), (s64)r.below(4)});
        }
        p.add("run", {(s64)r.range(50, 3000)});
        return p;
    }

    Outcome execute(const Plan& plan) override {
        Outcome out;
        Hasher log;
        bool user_mem = plan.knob("user_mem", 0) != 0;
        auto boxp = BoxPool::take(user_mem);
        Box& b = *boxp;
        b.install_callbacks();
        b.ext_budget = 300000;
        b.reset();
        auto& t = *b.t;
        hooks().budget = 4000000;
        hooks().pc_ptr = &b.regs().pc;
        hooks().prpage_ptr = &b.regs().prpage;
        u64 cycles_run = 0, periph = 0;
        std::string cls_end = "return";
        Hasher touched;
        std::size_t si = 0;
        try {
            for (; si < plan.steps.size(); ++si) {
                const Step& s = plan.steps[si];
                if (s.op == "prog") {
                    u32 at = (u32)(s.arg(0) & 0x3FFFF);
                    int len = (int)std::min<s64>(std::max<s64>(s.arg(2), 1), 256);
                    Rng g((u64)s.arg(1) * 1000003 + 7);
                    if (s.arg(3) == 0) {
                        for (int i = 0; i < len && at + (u32)i < 0x40000; ++i)
                            b.poke_prog(at + (u32)i, (u16)g.next());
                    } else {
                        Asm a;
                        biased_program(a, g, at, len);
                        for (auto& kv : a.words)
                            if (kv.first < 0x40000)
                                b.poke_prog(kv.first, kv.second);
                    }
                    if (cycles_run == 0 || s.arg(3) == 2)
                        b.regs().pc = at;
                } else if (s.op == "regs") {
                    Rng g((u64)s.arg(0) * 7919 + 3);
                    u32 pc = b.regs().pc;
                    randomize_regs(b.regs(), g, s.arg(1) != 0);
                    if (!s.arg(1))
                        b.regs().pc = pc;
                } else if (s.op == "setpc") {
                    b.regs().pc = (u32)(s.arg(0) & 0x3FFFF);
                } else if (s.op == "run") {
                    u64 n = (u64)std::min<s64>(s.arg(0), 5000);
                    out.faults_configured["slice"]++;
                    out.faults_fired["slice"]++;
                    t.Run((unsigned)n);
                    cycles_run += n;
                    out.sim_cycles += n;
                } else if (s.op == "mmiow") {
                    t.MMIOWrite((u16)s.arg(0), (u16)s.arg(1));
                    ++periph;
                    touched.add((u64)(s.arg(0) & 0x7E0));
                } else if (s.op == "mmior") {
                    log.add(t.MMIORead((u16)s.arg(0)));
                } else if (s.op == "dma") {
                    t.MMIOWrite(0x1BE, (u16)s.arg(0)); // any channel select value the register accepts
                    t.MMIOWrite(0x1C0, (u16)s.arg(1));
                    t.MMIOWrite(0x1C2, (u16)(s.arg(1) >> 16));
                    t.MMIOWrite(0x1C4, (u16)s.arg(2));
                    t.MMIOWrite(0x1C6, (u16)(s.arg(2) >> 16));
                    t.MMIOWrite(0x1C8, (u16)s.arg(3));
                    t.MMIOWrite(0x1CA, (u16)s.arg(4));
                    t.MMIOWrite(0x1CC, (u16)s.arg(5));
                    t.MMIOWrite(0x1CE, (u16)s.arg(6));
                    t.MMIOWrite(0x1D0, (u16)s.arg(7));
                    t.MMIOWrite(0x1D2, (u16)(s.arg(6) >> 3));
                    t.MMIOWrite(0x1D4, (u16)(s.arg(7) >> 5));
                    t.MMIOWrite(0x1DA, (u16)((s.arg(8) & 15) | (s.arg(9) & 15) << 4 | (s.arg(10) & 1) << 10));
                    t.MMIOWrite(0x0E2, (u16)(s.arg(11) & 0x36));
                    t.MMIOWrite(0x0E4, (u16)((s.arg(11) >> 6 & 1) << 8));
                    t.MMIOWrite(0x0E6, (u16)(1u << (s.arg(0) & 7)));
                    out.probes["dma_started"]++;
                    ++periph;
                    t.MMIOWrite(0x1DE, 0x40C0);
                } else if (s.op == "host") {
                    u8 idx = (u8)(s.arg(1) % 3);
                    switch (s.arg(0) % 12) {
                    case 0:
                        t.SendData(idx, (u16)s.arg(2));
                        break;
                    case 1:
                        log.add(t.RecvData(idx));
                        break;
                    case 2:
                        t.SetSemaphore((u16)s.arg(2));
                        break;
                    case 3:
                        t.ClearSemaphore((u16)s.arg(2));
                        break;
                    case 4:
                        t.MaskSemaphore((u16)s.arg(2));
                        break;
                    case 5:
                        t.ProgramWrite((u32)(s.arg(1) & 0x3FFFF), (u16)s.arg(2));
                        break;
                    case 6:
                        log.add(t.ProgramRead((u32)(s.arg(1) & 0x3FFFF)));
                        break;
                    case 7:
                        t.DataWriteA32((u32)(s.arg(1) * 4099u), (u16)s.arg(2));
                        break;
                    case 8:
                        log.add(t.DataReadA32((u32)(s.arg(1) * 4099u)));
                        break;
                    case 9:
                        log.add(t.AHBMGetUnitSize(idx) + t.AHBMGetDirection(idx) + t.AHBMGetDmaChannel(idx));
                        break;
                    case 10:
                        log.add(t.DMAChan0GetSrcHigh() + t.DMAChan0GetDstHigh());
                        break;
                    default:
                        log.add(t.PeekRecvData(idx) + t.GetSemaphore());
                        break;
                    }
                } else if (s.op == "trig") {
                    out.faults_configured["irq-inject"]++;
                    out.faults_fired["irq-inject"]++;
                    t.MMIOWrite(0x204, (u16)s.arg(0));
                } else if (s.op == "reset") {
                    out.faults_configured["reset"]++;
                    out.faults_fired["reset"]++;
                    t.Reset();
                } else if (s.op == "dataw") {
                    t.DataWrite((u16)s.arg(0), (u16)s.arg(1), s.arg(2) != 0);
                } else if (s.op == "ahbm") {
                    switch (s.arg(2) % 4) {
                    case 0:
                        log.add(t.AHBMRead16((u32)s.arg(0)));
                        break;
                    case 1:
                        t.AHBMWrite16((u32)s.arg(0), (u16)s.arg(1));
                        break;
                    case 2:
                        log.add(t.AHBMRead32((u32)s.arg(0)));
                        break;
                    default:
                        t.AHBMWrite32((u32)s.arg(0), (u32)s.arg(1));
                        break;
                    }
                }
            }
        } catch (const VerifAssert& a) {
            out.aborted = true;
            out.abort_site = a.file + ":" + std::to_string(a.line);
            cls_end = "assert:" + out.abort_site;
            out.probes["assert_site_" + out.abort_site]++;
        } catch (const VerifBudget&) {
            out.probes["budget_exceeded"]++;
            cls_end = "budget";
        } catch (const VerifOOB& o) {
            bool fetch = o.have_regs && (o.address == ((o.pc - 1) | ((u32)o.prpage << 18)) || o.address == ((o.pc - 2) | ((u32)o.prpage << 18)) ||
                                         o.address == (o.pc | ((u32)o.prpage << 18)));
            out.violate("C18.dspmem-oob", fmt("step %zu (%s): %s of DSP memory word 0x%x (array holds 0x40000 words); pc=0x%x prpage=%u; explained-by:%s",
                                              si, si < plan.steps.size() ? plan.steps[si].op.c_str() : "?", o.is_write ? "write" : "read", o.address,
                                              o.pc, o.prpage, fetch ? "fetch" : (si < plan.steps.size() && plan.steps[si].op == "dma") ? "dma" : "other"));
            cls_end = "oob";
        } catch (const std::runtime_error& e) {
            if (std::string(e.what()) == "unimplemented") {
                out.probes["unimplemented_instruction"]++;
                cls_end = "unimplemented";
            } else {
                out.violate("C18.exception", std::string("unexpected exception: ") + e.what());
            }
        } catch (const std::exception& e) {
            out.violate("C18.exception", std::string("unexpected exception: ") + e.what());
        }
        hooks().pc_ptr = nullptr;
        hooks().prpage_ptr = nullptr;
        out.probes["outcome_" + cls_end.substr(0, cls_end.find(':'))]++;
        out.nontrivial = cycles_run >= 50 && periph > 0;
        Hasher sg;
        sg.add_str(cls_end);
        sg.add(touched.h);
        sg.add(cycles_run > 1000);
        out.sig = sg.h;
        out.state_sigs.insert(sg.h);
        log.add_str(cls_end);
        log.add(hooks().accesses);
        out.hash = log.h;
        return out;
    }
};

Registrar reg(new C18);

} // namespace
} // namespace sim
