// C13 — a DMA transfer copies exactly the documented 3-D strided element sequence, changes nothing
// else, raises the DMA interrupt exactly once, and touches external memory at exactly the documented
// addresses. Facade level (start by host MMIO write or by a guest store, on any of the eight channels,
// in a running system) plus a component level twin of tests/dma.cpp that counts the interrupt handler.
#include "../core/box.h"
#include "../guest/firmware.h"
#include "../models/dma_model.h"
#include "ahbm.h"
#include "dma.h"
#include "shared_memory.h"

namespace sim {
namespace {

DmaConfig cfg_from_step(const Step& s) {
    DmaConfig c;
    c.src = (u32)s.arg(0);
    c.dst = (u32)s.arg(1);
    for (int i = 0; i < 3; ++i) {
        c.size[i] = (u16)s.arg(2 + (std::size_t)i);
        c.sstep[i] = (u16)s.arg(5 + (std::size_t)i);
        c.dstep[i] = (u16)s.arg(8 + (std::size_t)i);
    }
    c.src_space = s.arg(11) ? 7 : 0;
    c.dst_space = s.arg(12) ? 7 : 0;
    c.dword = s.arg(13) != 0;
    int b = (int)s.arg(14);
    c.burst = b == 1 ? 4 : b == 2 ? 8 : 1;
    return c;
}

// forces a configuration into the contract of the property (keeps the plan interpreter total)
void sanitize(DmaConfig& c) {
    u32 unit = c.dword ? 4 : 2;
    if (c.src_space == 7 && c.dst_space == 7)
        c.burst = 1; // one AHBM channel cannot burst in both directions
    if (c.src_space == 0 && c.dst_space == 0)
        c.burst = 1;
    auto fix_ext = [&](u32& addr, u16* step) {
        addr &= ~(unit - 1);
        if (addr < 0x1000)
            addr += 0x20000000;
        for (int i = 0; i < 3; ++i)
            step[i] &= (u16) ~(unit - 1);
        if (c.burst > 1)
            step[0] = (u16)unit;
    };
    if (c.src_space == 7)
        fix_ext(c.src, c.sstep);
    else
        c.src &= 0x1FFFF;
    if (c.dst_space == 7)
        fix_ext(c.dst, c.dstep);
    else
        c.dst &= 0x1FFFF;
    if (c.burst > 1) {
        // a row must hold a multiple of the burst length
        u32 per = (u32)c.burst * (c.dword ? 2 : 1);
        u32 sz = std::max<u32>(c.size[0], 1);
        sz = ((sz + per - 1) / per) * per;
        c.size[0] = (u16)std::min<u32>(sz, 64);
    }
    // bound the work
    auto n = [&](int i) { return (u64)std::max<u16>(c.size[i], 1); };
    while (n(0) * n(1) * n(2) > 4096) {
        int big = n(2) >= n(1) && n(2) >= n(0) ? 2 : n(1) >= n(0) ? 1 : 0;
        if (big == 0 && c.burst > 1)
            big = n(1) >= n(2) ? 1 : 2;
        c.size[big] = (u16)(c.size[big] / 2);
    }
}

class C13 : public Scenario {
public:
    const char* prop() const override {
        return "C13";
    }
    const char* components_real() const override {
        return "Dma (src/dma.cpp), Ahbm (src/ahbm.cpp), SharedMemory, MMIO bindings 0x0E0-0x0F2/0x184-0x1DE, ICU request bit 15, "
               "Teakra facade; interpreter for guest-issued starts";
    }
    const char* components_stub() const override {
        return "external memory (sparse byte map with access trace), host CPU (plan steps), DMA interrupt handler counter "
               "(component variant)";
    }
    const char* nontrivial_rule() const override {
        return "non-trivial if at least one transfer of >= 2 elements with a non-unit stride, an overlap or an external side "
               "completed inside the DSP array and was compared; distinct = distinct (plan shape hash, signature of the "
               "configurations' shape classes)";
    }
    std::pair<int, int> pool_need() const override {
        return {1, 0};
    }
    std::vector<std::pair<std::string, s64>> simplest_knobs() const override {
        return {{"guest_start", 0}, {"timers", 0}};
    }

    Plan generate(u64 seed, const Tier& tier) override {
        Rng r(seed);
        Plan p;
        p.set_knob("comp", (s64)r.chance(1, 4));
        p.set_knob("guest_start", (s64)r.chance(1, 3));
        p.set_knob("timers", (s64)r.chance(1, 2));
        int n = (int)r.range(1, tier.thorough ? 10 : 5);
        for (int i = 0; i < n; ++i) {
            if (r.chance(1, 4))
                p.add("run", {(s64)r.range(0, 60)});
            // fill a few DSP words / external bytes so copies are attributable
            p.add("fill", {(s64)(r.next() & 0xFFFFFF)});
            bool dword = r.chance(1, 3);
            int shape = (int)r.below(4); // spaces: 0 d->d, 1 d->e, 2 e->d, 3 e->e
            auto small = [&]() -> s64 { return r.chance(1, 6) ? 0 : (s64)r.range(1, r.chance(1, 4) ? 40 : 6); };
            auto step = [&]() -> s64 {
                switch (r.below(6)) {
                case 0:
                    return 0;
                case 1:
                    return 1;
                case 2:
                    return 2;
                case 3:
                    return (s64)r.range(3, 40);
                case 4:
                    return (s64)(0x10000 - r.range(1, 8)); // large 16-bit step
                default:
                    return (s64)r.range(0, 0x400);
                }
            };
            u32 base = (u32)r.below(0x1F000);
            u32 src = base, dst = r.chance(1, 3) ? base + (u32)r.range(-8, 24) : (u32)r.below(0x1F000);
            if (shape & 2)
                src = 0x20000000u + (u32)r.below(0x4000);
            if (shape & 1)
                dst = (shape & 2) && r.chance(1, 3) ? src + (u32)r.range(0, 32) : 0x20100000u + (u32)r.below(0x4000);
            p.add("dma", {(s64)src, (s64)dst, small(), small(), r.chance(1, 2) ? small() : 1, step(), step(), step(), step(), step(), step(),
                          (s64)((shape & 2) != 0), (s64)((shape & 1) != 0), (s64)dword, (s64)r.below(3), (s64)r.below(8), (s64)r.below(3)});
        }
        return p;
    }

    // signature class of a configuration
    static u64 shape_sig(const DmaConfig& c) {
        Hasher h;
        h.add((u64)c.src_space);
        h.add((u64)c.dst_space);
        h.add(c.dword);
        h.add((u64)c.burst);
        for (int i = 0; i < 3; ++i) {
            h.add(c.size[i] == 0 ? 0 : c.size[i] == 1 ? 1 : 2);
            h.add(c.sstep[i] == 0 ? 0 : c.sstep[i] == 1 ? 1 : c.sstep[i] > 0x8000 ? 3 : 2);
            h.add(c.dstep[i] == 0 ? 0 : c.dstep[i] == 1 ? 1 : c.dstep[i] > 0x8000 ? 3 : 2);
        }
        return h.h;
    }

    Outcome execute(const Plan& plan) override {
        return plan.knob("comp", 0) ? exec_component(plan) : exec_facade(plan);
    }

    static void do_fill(u64 seed, u8* mem, ExtMem& ext, std::vector<u8>* model_mem) {
        Rng r(seed * 2654435761u + 17);
        // data memory: a few runs of recognisable words
        for (int k = 0; k < 6; ++k) {
            u32 a = (u32)r.below(0x1FF00);
            for (u32 i = 0; i < 48; ++i) {
                u16 v = (u16)(r.next());
                u32 b = (0x20000 + a + i) * 2;
                mem[b] = (u8)v;
                mem[b + 1] = (u8)(v >> 8);
                if (model_mem) {
                    (*model_mem)[b] = (u8)v;
                    (*model_mem)[b + 1] = (u8)(v >> 8);
                }
            }
        }
        ext.fill_seed = r.next();
    }

    static bool compare_result(Outcome& out, std::size_t si, const DmaConfig& c, const u8* real_mem, const std::vector<u8>& model_mem,
                               const std::vector<Event>& real_trace, const DmaModelResult& mr) {
        if (std::memcmp(real_mem, model_mem.data(), 0x80000) != 0) {
            for (u32 w = 0; w < 0x40000; ++w) {
                u16 rv = (u16)(real_mem[w * 2] | real_mem[w * 2 + 1] << 8), mv = (u16)(model_mem[w * 2] | model_mem[w * 2 + 1] << 8);
                if (rv != mv) {
                    // is this word one the model wrote? then the data is wrong, else it is a stray write
                    out.violate(w >= 0x20000 ? "C13.data" : "C13.stray",
                                fmt("step %zu: after the transfer DSP word 0x%x (data address 0x%x) = 0x%04x, model 0x%04x (src=0x%x dst=0x%x "
                                    "size=%u/%u/%u sstep=%u/%u/%u dstep=%u/%u/%u spaces=%d>%d dword=%d burst=%d)",
                                    si, w, w - 0x20000, rv, mv, c.src, c.dst, c.size[0], c.size[1], c.size[2], c.sstep[0], c.sstep[1],
                                    c.sstep[2], c.dstep[0], c.dstep[1], c.dstep[2], c.src_space, c.dst_space, (int)c.dword, c.burst));
                    return false;
                }
            }
        }
        std::size_t n = std::min(real_trace.size(), mr.ext_trace.size());
        for (std::size_t i = 0; i < n; ++i)
            if (!(real_trace[i] == mr.ext_trace[i])) {
                out.violate("C13.ext-trace", fmt("step %zu: external access %zu is %s, documented sequence has %s (src=0x%x dst=0x%x dword=%d burst=%d)",
                                                 si, i, real_trace[i].str().c_str(), mr.ext_trace[i].str().c_str(), c.src, c.dst, (int)c.dword, c.burst));
                return false;
            }
        if (real_trace.size() != mr.ext_trace.size()) {
            out.violate("C13.ext-trace", fmt("step %zu: %zu external accesses, documented sequence has %zu", si, real_trace.size(), mr.ext_trace.size()));
            return false;
        }
        return true;
    }

    // ------------------------------------------------------------ facade
    Outcome exec_facade(const Plan& plan) {
        Outcome out;
        Hasher log;
        auto boxp = BoxPool::take(false);
        Box& b = *boxp;
        b.install_callbacks();
        b.reset();
        auto& t = *b.t;
        b.poke_prog(0, op::BRR_SELF);
        for (u16 o = 0x206; o <= 0x20C; o += 2)
            t.MMIOWrite(o, 0);
        if (plan.knob("timers", 0)) { // a running system: timers live, interrupts unrouted
            t.MMIOWrite(0x24, 7);
            t.MMIOWrite(0x20, timer_cfg_word(1, false, true, true));
            t.MMIOWrite(0x34, 100);
            t.MMIOWrite(0x30, timer_cfg_word(2, false, true, true));
        }
        std::vector<u8> model_mem(b.mem(), b.mem() + 0x80000);
        ExtMem model_ext;
        bool interesting = false;
        Hasher sig;
        for (std::size_t si = 0; si < plan.steps.size() && out.ok(); ++si) {
            const Step& s = plan.steps[si];
            if (s.op == "run") {
                std::string ab = b.run((u64)std::min<s64>(s.arg(0), 500));
                out.sim_cycles += (u64)s.arg(0);
                if (!ab.empty()) {
                    out.aborted = true;
                    out.abort_site = ab;
                    break;
                }
                // the idle guest must not have changed memory
                std::memcpy(model_mem.data(), b.mem(), 0x80000);
            } else if (s.op == "fill") {
                do_fill((u64)s.arg(0), b.mem(), b.ext, &model_mem);
                model_ext.fill_seed = b.ext.fill_seed;
                model_ext.bytes = b.ext.bytes;
            } else if (s.op == "dma") {
                DmaConfig c = cfg_from_step(s);
                sanitize(c);
                u16 chan = (u16)(s.arg(15) & 7), ahbm_ch = (u16)(s.arg(16) % 3);
                // dry run of the model to keep every DSP address inside the array (beyond is C18's business)
                {
                    std::vector<u8> scratch = model_mem;
                    ExtMem se = model_ext;
                    if (dma_model_run(c, scratch, se).dsp_oob) {
                        out.probes["config_out_of_array_skipped"]++;
                        continue;
                    }
                }
                // other channels hold different configurations
                u16 other = (u16)((chan + 1 + (s.arg(0) & 3)) & 7);
                if (other == chan)
                    other = (u16)((chan + 1) & 7);
                t.MMIOWrite(0x1BE, other);
                t.MMIOWrite(0x1C0, 0x5A5A);
                t.MMIOWrite(0x1C8, 0x0123);
                t.MMIOWrite(0x1DA, 0x0077);
                // AHBM binding
                for (u16 i = 0; i < 3; ++i)
                    t.MMIOWrite((u16)(0x0E6 + i * 6), i == ahbm_ch ? (u16)(1u << chan) : 0);
                int burst_code = c.burst == 4 ? 1 : c.burst == 8 ? 2 : 0;
                t.MMIOWrite((u16)(0x0E2 + ahbm_ch * 6), (u16)(burst_code << 1 | (c.dword ? 2 : 1) << 4));
                t.MMIOWrite((u16)(0x0E4 + ahbm_ch * 6), (u16)((c.dst_space == 7 ? 1 : 0) << 8));
                t.MMIOWrite(0x1BE, chan);
                t.MMIOWrite(0x1C0, (u16)c.src);
                t.MMIOWrite(0x1C2, (u16)(c.src >> 16));
                t.MMIOWrite(0x1C4, (u16)c.dst);
                t.MMIOWrite(0x1C6, (u16)(c.dst >> 16));
                for (int i = 0; i < 3; ++i) {
                    t.MMIOWrite((u16)(0x1C8 + 2 * i), c.size[i]);
                    t.MMIOWrite((u16)(0x1CE + 4 * i), c.sstep[i]);
                    t.MMIOWrite((u16)(0x1D0 + 4 * i), c.dstep[i]);
                }
                t.MMIOWrite(0x1DA, (u16)(c.src_space | c.dst_space << 4 | (c.dword ? 1 : 0) << 10));
                t.MMIOWrite(0x202, 0x8000); // make the edge of request bit 15 visible
                std::size_t ev0 = b.events.size();
                // start: host write or guest store
                bool by_guest = plan.knob("guest_start", 0) && (s.arg(0) & 1);
                if (by_guest) {
                    Asm a;
                    a.org(0x1000).store_imm((u16)(MMIO + 0x1DE), 0x40C0).idle();
                    b.load(a.words);
                    for (auto& kv : a.words) {
                        model_mem[kv.first * 2] = (u8)kv.second;
                        model_mem[kv.first * 2 + 1] = (u8)(kv.second >> 8);
                    }
                    b.regs().pc = 0x1000;
                    std::string ab = b.run(4);
                    out.probes["start_by_guest_store"]++;
                    if (!ab.empty()) {
                        out.aborted = true;
                        out.abort_site = ab;
                        break;
                    }
                } else {
                    try {
                        t.MMIOWrite(0x1DE, 0x40C0);
                    } catch (const VerifAssert& e) {
                        out.aborted = true;
                        out.abort_site = e.file + ":" + std::to_string(e.line);
                        break;
                    }
                }
                DmaModelResult mr = dma_model_run(c, model_mem, model_ext);
                std::vector<Event> trace(b.events.begin() + (long)ev0, b.events.end());
                for (auto& e : trace) {
                    log.add(e.a);
                    log.add(e.b);
                }
                log.add(b.mem_digest());
                if (!compare_result(out, si, c, b.mem(), model_mem, trace, mr))
                    break;
                if (((t.MMIORead(0x200) >> 15) & 1) != 1) {
                    out.violate("C13.irq-count", fmt("step %zu: DMA completion did not raise ICU request bit 15", si));
                    break;
                }
                // other channel's registers unchanged
                t.MMIOWrite(0x1BE, other);
                if (t.MMIORead(0x1C0) != 0x5A5A || t.MMIORead(0x1C8) != 0x0123 || t.MMIORead(0x1DA) != 0x0077) {
                    out.violate("C13.stray", fmt("step %zu: registers of channel %u changed by a transfer on channel %u", si, other, chan));
                    break;
                }
                u64 ssig = shape_sig(c);
                out.state_sigs.insert(ssig);
                sig.add(ssig);
                bool overlap = c.src_space == c.dst_space && (c.src > c.dst ? c.src - c.dst : c.dst - c.src) < 64;
                if (overlap)
                    out.probes["overlapping_ranges"]++;
                if (c.burst > 1)
                    out.probes["burst_transfers"]++;
                if (c.dword)
                    out.probes["dword_transfers"]++;
                if (c.size[0] == 0 || c.size[1] == 0 || c.size[2] == 0)
                    out.probes["zero_size"]++;
                out.probes["elements"] += mr.elements;
                if (mr.elements >= 2 && (overlap || c.src_space == 7 || c.dst_space == 7 || c.sstep[0] != 1 || c.dstep[0] != 1))
                    interesting = true;
            }
        }
        out.nontrivial = interesting;
        out.sig = sig.h;
        out.hash = log.h;
        return out;
    }

    // ------------------------------------------------------------ component (as tests/dma.cpp): exact interrupt count
    Outcome exec_component(const Plan& plan) {
        Outcome out;
        Hasher log;
        Teakra::SharedMemory sm;
        Teakra::Ahbm ahbm;
        Teakra::Dma dma(sm, ahbm);
        ExtMem ext, model_ext;
        std::vector<Event> events;
        u64 irqs = 0;
        dma.SetInterruptHandler([&irqs]() { ++irqs; });
        ahbm.SetExternalMemoryCallback(
            [&](u32 a) -> u8 { u8 v = (u8)ext.read(a, 8); events.push_back(Event{Event::ExtRead, 8, a, v}); return v; },
            [&](u32 a, u8 v) { ext.write(a, 8, v); events.push_back(Event{Event::ExtWrite, 8, a, v}); },
            [&](u32 a) -> u16 { u16 v = (u16)ext.read(a, 16); events.push_back(Event{Event::ExtRead, 16, a, v}); return v; },
            [&](u32 a, u16 v) { ext.write(a, 16, v); events.push_back(Event{Event::ExtWrite, 16, a, v}); },
            [&](u32 a) -> u32 { u32 v = ext.read(a, 32); events.push_back(Event{Event::ExtRead, 32, a, v}); return v; },
            [&](u32 a, u32 v) { ext.write(a, 32, v); events.push_back(Event{Event::ExtWrite, 32, a, v}); });
        std::vector<u8> model_mem(sm.raw, sm.raw + 0x80000);
        bool interesting = false;
        Hasher sig;
        for (std::size_t si = 0; si < plan.steps.size() && out.ok(); ++si) {
            const Step& s = plan.steps[si];
            if (s.op == "fill") {
                do_fill((u64)s.arg(0), sm.raw, ext, &model_mem);
                model_ext.fill_seed = ext.fill_seed;
                model_ext.bytes = ext.bytes;
            } else if (s.op == "dma") {
                DmaConfig c = cfg_from_step(s);
                sanitize(c);
                {
                    std::vector<u8> scratch = model_mem;
                    ExtMem se = model_ext;
                    if (dma_model_run(c, scratch, se).dsp_oob)
                        continue;
                }
                u16 chan = (u16)(s.arg(15) & 7), ahbm_ch = (u16)(s.arg(16) % 3);
                for (u16 i = 0; i < 3; ++i)
                    ahbm.SetDmaChannel(i, i == ahbm_ch ? (u16)(1u << chan) : 0);
                ahbm.SetBurstSize(ahbm_ch, c.burst == 4 ? 1 : c.burst == 8 ? 2 : 0);
                ahbm.SetUnitSize(ahbm_ch, c.dword ? 2 : 1);
                ahbm.SetDirection(ahbm_ch, c.dst_space == 7 ? 1 : 0);
                dma.ActivateChannel(chan);
                dma.SetAddrSrcLow((u16)c.src);
                dma.SetAddrSrcHigh((u16)(c.src >> 16));
                dma.SetAddrDstLow((u16)c.dst);
                dma.SetAddrDstHigh((u16)(c.dst >> 16));
                dma.SetSize0(c.size[0]);
                dma.SetSize1(c.size[1]);
                dma.SetSize2(c.size[2]);
                dma.SetSrcStep0(c.sstep[0]);
                dma.SetSrcStep1(c.sstep[1]);
                dma.SetSrcStep2(c.sstep[2]);
                dma.SetDstStep0(c.dstep[0]);
                dma.SetDstStep1(c.dstep[1]);
                dma.SetDstStep2(c.dstep[2]);
                dma.SetSrcSpace((u16)c.src_space);
                dma.SetDstSpace((u16)c.dst_space);
                dma.SetDwordMode(c.dword);
                u64 irq0 = irqs;
                std::size_t ev0 = events.size();
                try {
                    dma.DoDma(chan);
                } catch (const VerifAssert& e) {
                    out.aborted = true;
                    out.abort_site = e.file + ":" + std::to_string(e.line);
                    break;
                }
                DmaModelResult mr = dma_model_run(c, model_mem, model_ext);
                std::vector<Event> trace(events.begin() + (long)ev0, events.end());
                for (auto& e : trace) {
                    log.add(e.a);
                    log.add(e.b);
                }
                if (!compare_result(out, si, c, sm.raw, model_mem, trace, mr))
                    break;
                if (irqs - irq0 != 1) {
                    out.violate("C13.irq-count", fmt("step %zu: completion invoked the DMA interrupt handler %llu times", si,
                                                     (unsigned long long)(irqs - irq0)));
                    break;
                }
                u64 ssig = shape_sig(c);
                out.state_sigs.insert(ssig);
                sig.add(ssig);
                out.probes["elements"] += mr.elements;
                if (mr.elements >= 2)
                    interesting = true;
            }
        }
        out.nontrivial = interesting;
        out.sig = sig.h;
        out.hash = log.h;
        return out;
    }
};

Registrar reg(new C13);

} // namespace
} // namespace sim
