// C06 — Run(n) is equivalent to n single-cycle steps, however it is sliced.
// Twin run: A executes the plan's slices with Run(n); B executes the same cycles with n x Run(1)
// (on that path the idle fast-forward is never taken). Registers, memory, peripheral registers,
// mailbox state and the ordered callback events must agree after every slice.
#include "../core/box.h"
#include "../guest/firmware.h"

namespace sim {
namespace {

const u32 kStarts[] = {0, 1, 2, 3, 4, 5, 6, 8, 13, 21, 40, 100, 0xFFFF, 0x10000, 0x10001, 0xFFFFFFFFu};

struct Machine {
    std::unique_ptr<Box> boxp;
    Box& box;
    FwConfig cfg;
    std::size_t events_seen = 0;
    int patches = 0;
    bool dead = false;
    std::string abort_site;
    explicit Machine(const Plan& p) : boxp(BoxPool::take(p.knob("user_mem", 0) != 0)), box(*boxp) {
        box.reenter_mode = (int)p.knob("reenter", 0);
        box.install_callbacks();
        box.reset();
        fw_from_plan(p, cfg);
        Asm a;
        fw_build(cfg, a);
        box.load(a.words);
        fw_host_setup(box, cfg);
    }
    void host(const Step& s) {
        auto& t = *box.t;
        s64 k = s.arg(0);
        switch (k % 10) {
        case 9: // the host patches the code under an idling core: the idle instruction becomes real work followed by a new idle loop
            if (cfg.idle_addr != 0xFFFFFFFF && patches < 6) {
                t.ProgramWrite(cfg.idle_addr, op::INC_A0);
                t.ProgramWrite(cfg.idle_addr + 1, op::BRR_SELF);
                cfg.idle_addr += 1;
                ++patches;
            }
            break;
        case 7: // routing changed while the system runs
            t.MMIOWrite((u16)(0x206 + 2 * (s.arg(1) % 4)), (u16)s.arg(2));
            break;
        case 8: // timer event write from the host side
            t.MMIOWrite((u16)(0x22 + 0x10 * (s.arg(1) & 1)), 1);
            break;
        case 0:
            t.SendData((u8)(s.arg(1) % 3), (u16)s.arg(2));
            break;
        case 1:
            t.SetSemaphore((u16)s.arg(2));
            break;
        case 2:
            t.MMIOWrite(0x204, (u16)s.arg(2)); // software trigger
            break;
        case 3:
            if (t.RecvDataIsReady((u8)(s.arg(1) % 3)))
                (void)t.RecvData((u8)(s.arg(1) % 3));
            break;
        case 4: { // reprogram a timer (documented modes only)
            int i = (int)(s.arg(1) & 1);
            t.MMIOWrite((u16)(0x24 + i * 0x10), (u16)(s.arg(2) & 0xFFFF));
            t.MMIOWrite((u16)(0x26 + i * 0x10), (u16)((s.arg(2) >> 16) & 0xFFFF));
            t.MMIOWrite((u16)(0x20 + i * 0x10), timer_cfg_word((int)((s.arg(1) >> 1) & 3), (s.arg(1) >> 3) & 1, (s.arg(1) >> 4) & 1, true));
            break;
        }
        case 5:
            t.MMIOWrite(0x202, (u16)s.arg(2)); // acknowledge
            break;
        default: // queue one to five audio words (odd counts leave a half frame behind, refills land on a partly drained queue)
            for (s64 i = 0, n = 1 + s.arg(1) % 5; i < n; ++i)
                t.MMIOWrite(0x2C6, (u16)(s.arg(2) + i));
            break;
        }
    }
};

class C06 : public Scenario {
public:
    const char* prop() const override {
        return "C06";
    }
    const char* components_real() const override {
        return "whole teakra library through include/teakra/teakra.h: Interpreter::Run, CoreTiming, Timer x2, Btdmp x2, ICU, "
               "Apbp x2, MMIO, MemoryInterface, SharedMemory";
    }
    const char* components_stub() const override {
        return "host CPU (plan steps), audio sink log, host interrupt handler log, external memory (unused here)";
    }
    std::pair<int, int> pool_need() const override {
        return {3, 3};
    }
    const char* nontrivial_rule() const override {
        return "non-trivial if at least one slice boundary fell inside an idle stretch of the guest or within 2 cycles of a "
               "peripheral/interrupt event of the single-stepped reference, and at least one state comparison was made; "
               "distinct = distinct (plan shape hash, signature of final state)";
    }
    std::vector<std::pair<std::string, s64>> simplest_knobs() const override {
        return {{"bt1_en", 0}, {"bt1_words", 0}, {"bt_en", 0},  {"bt_words", 0}, {"h0act", 0}, {"h1act", 0}, {"h2act", 0}, {"h3act", 0}, {"env", 0},
                {"en2", 0},    {"en1", 0},      {"t1cfg", 0}, {"t1start", 0}, {"busy", 0}, {"reenter", 0}, {"user_mem", 0},
                {"vctx", 0},   {"main", 0}};
    }

    Plan generate(u64 seed, const Tier& tier) override {
        Rng r(seed);
        Plan p;
        // ---- per-run knobs (swarm)
        u16 mod3 = 0x80; // ie
        if (r.chance(9, 10))
            mod3 |= 0x100;
        if (r.chance(2, 3))
            mod3 |= 0x200;
        if (r.chance(2, 3))
            mod3 |= 0x400;
        if (r.chance(1, 2))
            mod3 |= 0x800; // imv
        mod3 |= (u16)(r.below(8) << 1);                    // ic0..2
        mod3 |= (u16)(r.below(2) << 13 | r.below(2) << 14 | r.below(2) << 15); // ccnta, cpc, crep
        if (r.chance(1, 12))
            mod3 &= ~0x80; // interrupts globally off: pure skipping
        p.set_knob("mod3", mod3);
        const u16 irqs[6] = {1 << 9, 1 << 10, 1 << 11, 1 << 12, 1 << 14, 1 << 15};
        u16 en[3] = {0, 0, 0}, env = 0;
        for (u16 bit : irqs) {
            int where = (int)r.below(6); // 0..2 line, 3 vectored, 4 two places, 5 nowhere
            if (where < 3)
                en[where] |= bit;
            else if (where == 3)
                env |= bit;
            else if (where == 4) {
                en[r.below(3)] |= bit;
                if (r.chance(1, 2))
                    env |= bit;
                else
                    en[r.below(3)] |= bit;
            }
        }
        p.set_knob("en0", en[0]);
        p.set_knob("en1", en[1]);
        p.set_knob("en2", en[2]);
        p.set_knob("env", env);
        p.set_knob("vctx", (s64)r.below(2));
        for (int i = 0; i < 2; ++i) {
            int mode = (int)r.below(4);
            bool on = r.chance(i == 0 ? 9 : 5, 10);
            u32 start = r.chance(3, 4) ? r.pick(kStarts) : (u32)r.range(0, 300);
            if (!on) {
                mode = 0;
                start = 0;
            }
            p.set_knob("t" + std::to_string(i) + "cfg", timer_cfg_word(mode, r.chance(1, 12), r.chance(1, 2), false));
            p.set_knob("t" + std::to_string(i) + "start", start);
        }
        if (r.chance(1, 6)) {
            // coincidences: both timers running in the same mode, expiring in the same cycle or one or two cycles apart, their
            // requests routed to the same place
            int mode = (int)r.below(2);
            u32 start = (u32)r.range(4, 120);
            u32 delta = (u32)r.below(3);
            bool mu = r.chance(1, 2);
            p.set_knob("t0cfg", timer_cfg_word(mode, false, mu, false));
            p.set_knob("t1cfg", timer_cfg_word(mode, false, mu, false));
            p.set_knob("t0start", start);
            p.set_knob("t1start", r.chance(1, 2) ? start + delta : (start > delta ? start - delta : start));
            const u16 both = 1 << 9 | 1 << 10;
            for (int i = 0; i < 3; ++i)
                en[i] &= (u16)~both;
            env &= (u16)~both;
            int where = (int)r.below(4);
            if (where < 3)
                en[where] |= both;
            else
                env |= both;
            p.set_knob("en0", en[0]);
            p.set_knob("en1", en[1]);
            p.set_knob("en2", en[2]);
            p.set_knob("env", env);
        }
        bool bt = r.chance(1, 2);
        p.set_knob("bt_en", bt);
        p.set_knob("bt_words", bt ? (s64)r.below(19) : (s64)(r.chance(1, 4) ? r.below(5) : 0));
        bool bt1 = r.chance(1, 3);
        p.set_knob("bt1_en", bt1);
        p.set_knob("bt1_words", bt1 ? (s64)r.below(19) : 0);
        p.set_knob("busy", (s64)r.below(7));
        p.set_knob("main", (s64)(r.chance(1, 8) ? 1 : r.chance(1, 5) ? 2 : r.chance(1, 6) ? 3 : r.chance(1, 12) ? 4 : r.chance(1, 5) ? 5 : r.chance(1, 8) ? 6 : 0));
        for (int h = 0; h < 4; ++h) {
            u16 act = 0;
            if (r.chance(1, 3))
                act |= HA_RESTART_T0;
            if (r.chance(1, 6))
                act |= HA_RESTART_T1;
            if (r.chance(1, 4))
                act |= HA_AUDIO;
            if (r.chance(1, 3))
                act |= HA_REPLY;
            if (r.chance(1, 3))
                act |= HA_ACK;
            if (r.chance(1, 6))
                act |= HA_TRIGGER;
            if (r.chance(1, 16))
                act |= HA_IDLE_INSIDE;
            if (r.chance(1, 8))
                act |= HA_EINT;
            if (r.chance(1, 8))
                act |= HA_EINT_FIRST;
            if (r.chance(1, 6))
                act |= HA_EVENT;
            if (r.chance(1, 8))
                act |= HA_DMA;
            p.set_knob("h" + std::to_string(h) + "act", act);
            p.set_knob("h" + std::to_string(h) + "par", (s64)r.below(0x300));
        }
        p.set_knob("reenter", (s64)r.below(3));
        p.set_knob("user_mem", (s64)r.chance(1, 8));

        // ---- budget and host events at absolute cycles
        u64 budget = r.chance(1, 2) ? (u64)r.range(60, 1500) : (u64)r.range(4000, tier.thorough ? 30000 : 14000);
        int n_host = (int)r.below(9);
        std::vector<std::pair<u64, Step>> host;
        for (int i = 0; i < n_host; ++i) {
            Step s;
            s.op = "host";
            s.a = {(s64)(r.chance(1, 6) ? 9 : r.below(10)), (s64)r.below(32), (s64)(r.chance(1, 2) ? (r.next() & 0xFFFF) : (1u << (9 + r.below(6))))};
            if (s.a[0] == 4)
                s.a[2] = (s64)(r.chance(3, 4) ? r.pick(kStarts) : (u32)r.range(0, 300));
            host.emplace_back(r.below(budget), s);
        }
        std::sort(host.begin(), host.end(), [](auto& x, auto& y) { return x.first < y.first; });

        // ---- reference pre-run (single-stepped) to learn where events happen: the one adaptive element.
        // The chosen boundaries are written into the plan, so replay does not depend on this.
        std::vector<u64> interesting;
        {
            Plan tmp = p;
            Machine m(tmp);
            std::size_t hi = 0;
            u32 last_pc = 0;
            std::size_t last_ev = 0;
            bool was_idle = false;
            try {
                for (u64 c = 0; c < budget && interesting.size() < 64; ++c) {
                    while (hi < host.size() && host[hi].first == c)
                        m.host(host[hi++].second);
                    if (!m.box.run(1).empty())
                        break;
                    u32 pc = m.box.regs().pc;
                    bool is_idle = pc == m.cfg.idle_addr;
                    bool vec = (pc == 0x0006 || pc == 0x000E || pc == 0x0016 || pc == FW_HV) && pc != last_pc;
                    if (vec || m.box.events.size() != last_ev || (is_idle && !was_idle))
                        interesting.push_back(c + 1);
                    last_pc = pc;
                    last_ev = m.box.events.size();
                    was_idle = is_idle;
                }
            } catch (...) {
            }
        }
        // ---- slice boundaries: host event cycles (mandatory), aimed, random
        std::set<u64> cuts;
        for (auto& h : host)
            cuts.insert(h.first);
        int n_cuts = (int)r.range(1, 40);
        for (int i = 0; i < n_cuts; ++i) {
            if (!interesting.empty() && r.chance(1, 2)) {
                s64 c = (s64)r.pick(interesting) + r.range(-2, 2);
                if (c > 0 && (u64)c < budget)
                    cuts.insert((u64)c);
            } else {
                cuts.insert(r.below(budget));
            }
        }
        cuts.insert(budget);
        u64 prev = 0;
        std::size_t hi = 0;
        while (hi < host.size() && host[hi].first == 0)
            p.steps.push_back(host[hi++].second);
        for (u64 c : cuts) {
            if (c > prev)
                p.add("slice", {(s64)(c - prev)});
            else if (r.chance(1, 6))
                p.add("slice", {0}); // zero-length slices are legal calls too
            if (r.chance(1, 20))
                p.add("slice", {0});
            prev = c;
            while (hi < host.size() && host[hi].first == c)
                p.steps.push_back(host[hi++].second);
        }
        return p;
    }

    static void observe(Machine& m, ObsValues& v) {
        observe_regs(m.box.regs(), v, true);
        m.box.observe_mmio(v);
        m.box.observe_apbp(v);
    }
    static std::string obs_name(std::size_t i) {
        const ObsNames& rn = reg_names(true);
        if (i < rn.size())
            return rn[i];
        i -= rn.size();
        const auto& mo = modelled_mmio_offsets();
        if (i < mo.size())
            return fmt("MMIO[0x%03x]", mo[i]);
        i -= mo.size();
        if (i < 16)
            return fmt("MMIO[0x%03x]", (unsigned)(0x1C0 + 2 * i));
        i -= 16;
        const char* ap[] = {"SendDataIsEmpty", "RecvDataIsReady", "PeekRecvData"};
        if (i < 9)
            return fmt("%s(%zu)", ap[i % 3], i / 3);
        return "GetSemaphore";
    }

    Outcome execute(const Plan& plan) override {
        Outcome out;
        Hasher log;
        Machine A(plan), B(plan);
        u64 cycle = 0;
        u64 comparisons = 0;
        bool boundary_in_idle = false;
        u64 total_budget = 0;
        for (auto& s : plan.steps)
            if (s.op == "slice")
                total_budget += (u64)std::min<s64>(s.arg(0), 40000);
        if (total_budget > 60000) {
            out.notes.push_back("plan exceeds cycle bound; truncated");
        }
        for (std::size_t si = 0; si < plan.steps.size() && out.ok(); ++si) {
            const Step& s = plan.steps[si];
            if (s.op == "host") {
                out.faults_configured["host-event"]++;
                if (s.arg(0) % 9 == 2)
                    out.faults_configured["irq-inject"]++;
                std::size_t ea = A.box.events.size();
                try {
                    A.host(s);
                    B.host(s);
                } catch (const VerifAssert& e) {
                    out.aborted = true;
                    out.abort_site = e.file + ":" + std::to_string(e.line);
                    break;
                }
                if (A.box.events.size() != ea || cycle > 0)
                    out.faults_fired["host-event"]++;
                if (s.arg(0) % 9 == 2 && (s.arg(2) & (A.cfg.en[0] | A.cfg.en[1] | A.cfg.en[2] | A.cfg.env)))
                    out.faults_fired["irq-inject"]++;
                continue;
            }
            if (s.op != "slice")
                continue;
            u64 n = (u64)std::min<s64>(s.arg(0), 40000);
            if (cycle + n > 60000)
                break;
            out.faults_configured["slice"]++;
            // B's position before the slice tells whether this boundary cut an idle stretch
            if (cycle > 0 && B.box.regs().pc == B.cfg.idle_addr) {
                boundary_in_idle = true;
                out.faults_fired["slice"]++;
                out.probes["boundary_inside_idle"]++;
            }
            if (n == 0)
                out.probes["slice_len_0"]++;
            std::size_t ea0 = A.box.events.size(), eb0 = B.box.events.size();
            std::string abA = A.box.run(n);
            std::string abB;
            u64 done = 0;
            for (; done < n; ++done) {
                abB = B.box.run(1);
                if (!abB.empty())
                    break;
            }
            cycle += n;
            out.sim_cycles += 2 * n;
            if (abA != abB) {
                out.violate("C06.abort-mismatch",
                            fmt("step %zu (cycles %llu..%llu): sliced run %s, single-stepped run %s", si,
                                (unsigned long long)(cycle - n), (unsigned long long)cycle,
                                abA.empty() ? "completed" : ("aborted at " + abA).c_str(),
                                abB.empty() ? "completed" : ("aborted at " + abB).c_str()));
                break;
            }
            if (!abA.empty()) {
                out.aborted = true;
                out.abort_site = abA;
                break;
            }
            // ordered callback events of this slice
            std::size_t na = A.box.events.size() - ea0, nb = B.box.events.size() - eb0;
            for (std::size_t i = 0; i < std::min(na, nb); ++i) {
                const Event& x = A.box.events[ea0 + i];
                const Event& y = B.box.events[eb0 + i];
                log.add(x.kind);
                log.add(x.a);
                log.add(x.b);
                if (!(x == y)) {
                    out.violate("C06.event-log", fmt("step %zu (cycles %llu..%llu): event %zu of the slice is %s, single-stepped %s",
                                                     si, (unsigned long long)(cycle - n), (unsigned long long)cycle, i,
                                                     x.str().c_str(), y.str().c_str()));
                    break;
                }
            }
            if (out.ok() && na != nb) {
                out.violate("C06.event-log",
                            fmt("step %zu (cycles %llu..%llu): %zu callback events in the sliced run, %zu single-stepped (first extra: %s)",
                                si, (unsigned long long)(cycle - n), (unsigned long long)cycle, na, nb,
                                (na > nb ? A.box.events[ea0 + nb] : B.box.events[eb0 + na]).str().c_str()));
            }
            if (!out.ok())
                break;
            if (na)
                out.probes["slices_with_events"]++;
            ObsValues va, vb;
            observe(A, va);
            observe(B, vb);
            ++comparisons;
            for (u64 v : va)
                log.add(v);
            long d = first_diff(va, vb);
            if (d >= 0) {
                out.violate("C06.state-diverged",
                            fmt("step %zu, after cycle %llu (slice of %llu): %s = 0x%llx sliced, 0x%llx single-stepped", si,
                                (unsigned long long)cycle, (unsigned long long)n, obs_name((std::size_t)d).c_str(),
                                (unsigned long long)va[(std::size_t)d], (unsigned long long)vb[(std::size_t)d]));
                break;
            }
            long md = first_mem_diff(A.box, B.box);
            if (md >= 0) {
                out.violate("C06.state-diverged", fmt("step %zu, after cycle %llu: memory word 0x%lx = 0x%04x sliced, 0x%04x single-stepped",
                                                      si, (unsigned long long)cycle, md, A.box.peek_prog((u32)md), B.box.peek_prog((u32)md)));
                break;
            }
            Hasher sg;
            sg.add(B.box.regs().pc == B.cfg.idle_addr);
            sg.add(B.box.regs().ie);
            sg.add(B.box.regs().ip[0] | B.box.regs().ip[1] << 1 | B.box.regs().ip[2] << 2 | B.box.regs().ipv << 3);
            sg.add(B.box.t->MMIORead(0x200));
            sg.add(n < 4 ? n : 4);
            out.state_sigs.insert(sg.h);
        }
        u64 handler_entries = A.box.regs().a[1] & 0xFFFF;
        if (handler_entries)
            out.probes["handler_entries"] += handler_entries;
        out.probes["audio_frames"] += (u64)std::count_if(A.box.events.begin(), A.box.events.end(),
                                                         [](const Event& e) { return e.kind == Event::Audio; });
        out.probes["dma_ext_writes"] += (u64)std::count_if(A.box.events.begin(), A.box.events.end(),
                                                           [](const Event& e) { return e.kind == Event::ExtWrite; });
        out.probes["host_handler_events"] += A.box.handler_calls[0] + A.box.handler_calls[1] + A.box.handler_calls[2] + A.box.handler_calls[3];
        out.nontrivial = comparisons > 0 && boundary_in_idle;
        Hasher sg;
        sg.add(handler_entries > 5 ? 5 : handler_entries);
        sg.add(A.box.events.size() > 5 ? 5 : A.box.events.size());
        sg.add(A.cfg.main_kind);
        sg.add(out.aborted);
        out.sig = sg.h;
        out.hash = log.h;
        return out;
    }
};

Registrar reg(new C06);

} // namespace
} // namespace sim
