// C14 — APBP mailboxes and semaphores follow the documented handshake in both directions.
// variant comp=1: a single real Apbp object (one direction) with counting handlers.
// variant comp=0: the facade; host side through the public API, DSP side through MMIO 0x0C0..0x0D8,
//                 issued by the host MMIO accessor or by guest instructions executed by Run.
#include "../core/box.h"
#include "../guest/firmware.h"
#include "../models/apbp_model.h"
#include "apbp.h"

namespace sim {
namespace {

class C14 : public Scenario {
public:
    const char* prop() const override {
        return "C14";
    }
    const char* components_real() const override {
        return "Apbp x2 (src/apbp.cpp), MMIO bindings 0x0C0-0x0D8 (src/mmio.cpp), ICU request bit 14, Teakra facade, "
               "interpreter for guest-issued register accesses";
    }
    const char* components_stub() const override {
        return "host CPU (plan steps), host interrupt handlers (counting log)";
    }
    const char* nontrivial_rule() const override {
        return "non-trivial if at least one data send and one semaphore operation were judged and at least one operation "
               "came from each side; distinct = distinct (plan shape hash, final model state signature)";
    }
    std::pair<int, int> pool_need() const override {
        return {1, 0};
    }
    std::vector<std::pair<std::string, s64>> simplest_knobs() const override {
        return {{"guest_path", 0}, {"reenter", 0}, {"polling", 0}};
    }

    Plan generate(u64 seed, const Tier& tier) override {
        Rng r(seed);
        Plan p;
        bool comp = r.chance(1, 4);
        p.set_knob("comp", comp);
        p.set_knob("guest_path", (s64)r.chance(1, 2));
        p.set_knob("reenter", (s64)r.chance(1, 3)); // the host's receive handler reads the reply from inside the callback
        p.set_knob("polling", (s64)r.chance(1, 4)); // the receiving side never installs handlers and only polls flags and status registers
        int n = (int)r.range(3, tier.thorough ? 80 : 36);
        const char* host_ops[] = {"hsend", "hrecv", "hpeek", "hsem", "hclr", "hmask", "hget", "run"};
        const char* dsp_ops[] = {"dsend", "drecv", "dpeek", "dsem", "dack", "dmask", "ddis", "dstat"};
        int w_sem = (int)r.range(1, 4);
        for (int i = 0; i < n; ++i) {
            bool host = r.chance(1, 2);
            std::string op = host ? r.pick(host_ops) : r.pick(dsp_ops);
            if (r.chance((u64)w_sem, 8))
                op = r.pick(std::vector<const char*>{"hsem", "hclr", "hmask", "dsem", "dack", "dmask"});
            u16 bits = r.chance(1, 2) ? (u16)(1u << r.below(16)) : r.chance(1, 3) ? (u16)0 : (u16)(r.next() & 0xFFFF);
            if (r.chance(1, 10))
                bits = 0xFFFF;
            s64 via_guest = r.chance(1, 4);
            if (op == "hsend" || op == "dsend")
                p.add(op, {(s64)r.below(3), (s64)(0x100 + i), via_guest}); // unique values: every read is attributable
            else if (op == "hrecv" || op == "hpeek" || op == "drecv" || op == "dpeek")
                p.add(op, {(s64)r.below(3), 0, via_guest});
            else if (op == "ddis")
                p.add(op, {(s64)r.below(8), 0, via_guest});
            else if (op == "run")
                p.add(op, {(s64)r.range(0, 40)});
            else
                p.add(op, {(s64)bits, 0, via_guest});
        }
        return p;
    }

    // ------------------------------------------------------------ component variant
    Outcome exec_component(const Plan& plan) {
        Outcome out;
        Hasher log;
        Teakra::Apbp a;
        ApbpModel m;
        u64 data_calls[3] = {0, 0, 0}, sem_calls = 0;
        const bool polling = plan.knob("polling", 0) != 0;
        if (!polling) {
            for (unsigned ch = 0; ch < 3; ++ch)
                a.SetDataHandler(ch, [&data_calls, ch]() { ++data_calls[ch]; });
            a.SetSemaphoreHandler([&sem_calls]() { ++sem_calls; });
        } else {
            out.probes["receiver_without_handlers"]++;
        }
        bool judged_send = false, judged_sem = false;
        auto check_state = [&](std::size_t si) {
            for (unsigned ch = 0; ch < 3 && out.ok(); ++ch) {
                log.add(a.IsDataReady(ch));
                log.add(a.PeekData(ch));
                if (a.IsDataReady(ch) != m.ready[ch])
                    out.violate("C14.ready", fmt("step %zu: channel %u ready=%d, model %d", si, ch, (int)a.IsDataReady(ch), (int)m.ready[ch]));
                else if (a.PeekData(ch) != m.data[ch])
                    out.violate("C14.data", fmt("step %zu: channel %u holds 0x%x, model 0x%x", si, ch, a.PeekData(ch), m.data[ch]));
                else if ((a.GetDisableInterrupt(ch) != 0) != m.disable[ch])
                    out.violate("C14.status-disagree", fmt("step %zu: channel %u interrupt-disable=%d, model %d", si, ch,
                                                           (int)a.GetDisableInterrupt(ch), (int)m.disable[ch]));
            }
            if (!out.ok())
                return;
            log.add(a.GetSemaphore());
            log.add(a.IsSemaphoreSignaled());
            if (a.GetSemaphore() != m.sem || a.GetSemaphoreMask() != m.mask)
                out.violate("C14.data", fmt("step %zu: semaphore=0x%x mask=0x%x, model 0x%x / 0x%x", si, a.GetSemaphore(),
                                            a.GetSemaphoreMask(), m.sem, m.mask));
            else if (a.IsSemaphoreSignaled() != m.signal())
                out.violate("C14.signal-flag", fmt("step %zu (%s): signal flag=%d but (semaphore 0x%x & ~mask 0x%x) %s 0", si,
                                                   plan.steps[si].op.c_str(), (int)a.IsSemaphoreSignaled(), m.sem, m.mask,
                                                   m.signal() ? "!=" : "=="));
        };
        auto judge_sem = [&](std::size_t si, int req, u64 calls) {
            judged_sem = true;
            if (polling)
                return; // nobody to interrupt: only flags and values are judged
            if (req == 1 && calls == 0)
                out.violate("C14.irq-missing", fmt("step %zu (%s 0x%llx): signal flag rose (semaphore 0x%x mask 0x%x) but the peer was not interrupted",
                                                   si, plan.steps[si].op.c_str(), (long long)plan.steps[si].arg(0), m.sem, m.mask));
            else if (req == 0 && calls != 0)
                out.violate("C14.irq-spurious", fmt("step %zu (%s): peer interrupted %llu times while the signal flag stays 0", si,
                                                    plan.steps[si].op.c_str(), (unsigned long long)calls));
        };
        for (std::size_t si = 0; si < plan.steps.size() && out.ok(); ++si) {
            const Step& s = plan.steps[si];
            const std::string& op = s.op;
            unsigned ch = (unsigned)(s.arg(0) % 3);
            u16 bits = (u16)s.arg(0);
            u64 d0[3] = {data_calls[0], data_calls[1], data_calls[2]}, s0 = sem_calls;
            if (op == "hsend" || op == "dsend") {
                bool irq = m.send((int)ch, (u16)s.arg(1));
                a.SendData(ch, (u16)s.arg(1));
                judged_send = true;
                u64 calls = data_calls[ch] - d0[ch];
                if (irq && calls != 1 && !polling)
                    out.violate(calls == 0 ? "C14.irq-missing" : "C14.irq-spurious",
                                fmt("step %zu: send on channel %u invoked the peer handler %llu times (expected exactly 1)", si, ch,
                                    (unsigned long long)calls));
                else if (!irq && calls != 0)
                    out.violate("C14.irq-spurious", fmt("step %zu: send on channel %u with interrupt disabled invoked the handler", si, ch));
            } else if (op == "hrecv" || op == "drecv") {
                u16 want = m.recv((int)ch);
                u16 got = a.RecvData(ch);
                if (got != want)
                    out.violate("C14.data", fmt("step %zu: receive on channel %u returned 0x%x, last written 0x%x", si, ch, got, want));
            } else if (op == "hpeek" || op == "dpeek") {
                if (a.PeekData(ch) != m.peek((int)ch))
                    out.violate("C14.data", fmt("step %zu: peek on channel %u returned 0x%x, last written 0x%x", si, ch, a.PeekData(ch), m.peek((int)ch)));
            } else if (op == "ddis") {
                for (unsigned c = 0; c < 3; ++c) {
                    bool v = (s.arg(0) >> c) & 1;
                    a.SetDisableInterrupt(c, v);
                    m.disable[c] = v;
                }
            } else if (op == "hsem" || op == "dsem") {
                int req = m.set_sem(bits);
                a.SetSemaphore(bits);
                judge_sem(si, req, sem_calls - s0);
            } else if (op == "hclr" || op == "dack") {
                int req = m.ack_sem(bits);
                a.ClearSemaphore(bits);
                judge_sem(si, req, sem_calls - s0);
            } else if (op == "hmask" || op == "dmask") {
                int req = m.mask_sem(bits);
                if (req == 1)
                    out.probes["unmask_with_pending_bits"]++;
                a.MaskSemaphore(bits);
                judge_sem(si, req, sem_calls - s0);
            } else {
                continue;
            }
            for (unsigned c = 0; c < 3 && out.ok(); ++c)
                if (c != ch || !(op == "hsend" || op == "dsend"))
                    if (data_calls[c] != d0[c])
                        out.violate("C14.irq-spurious", fmt("step %zu (%s): data handler of channel %u invoked", si, op.c_str(), c));
            if (out.ok())
                check_state(si);
            Hasher sg;
            sg.add(m.ready[0] | m.ready[1] << 1 | m.ready[2] << 2);
            sg.add(m.signal());
            sg.add(m.sem != 0);
            sg.add(m.mask != 0);
            sg.add(m.disable[0] | m.disable[1] << 1 | m.disable[2] << 2);
            out.state_sigs.insert(sg.h);
        }
        out.nontrivial = judged_send && judged_sem;
        Hasher sg;
        sg.add(1);
        sg.add(m.ready[0] | m.ready[1] << 1 | m.ready[2] << 2);
        sg.add(m.signal());
        out.sig = sg.h;
        out.hash = log.h;
        return out;
    }

    // ------------------------------------------------------------ facade variant
    struct Facade {
        std::unique_ptr<Box> boxp;
        Box& b;
        bool guest_path;
        bool dead = false;
        std::string abort_site;
        Facade(bool gp, bool polling) : boxp(BoxPool::take(false)), b(*boxp), guest_path(gp) {
            b.polling_host = polling;
            b.install_callbacks();
            b.reset();
            b.poke_prog(0, op::BRR_SELF);
            // all ICU registers defined; APBP (irq 14) routed to int0 but interrupts stay globally disabled
            for (u16 o = 0x206; o <= 0x20C; o += 2)
                b.t->MMIOWrite(o, 0);
            b.t->MMIOWrite(0x206, 0x4000);
        }
        // DSP-side register write / read, through the host MMIO accessor or through guest instructions
        void dsp_write(u16 off, u16 v, bool via_guest) {
            if (via_guest && guest_path) {
                Asm a;
                a.org(0x1000).store_imm((u16)(MMIO + off), v).idle();
                b.load(a.words);
                b.regs().pc = 0x1000;
                std::string ab = b.run(4);
                if (!ab.empty()) {
                    dead = true;
                    abort_site = ab;
                }
            } else {
                b.t->MMIOWrite(off, v);
            }
        }
        u16 dsp_read(u16 off, bool via_guest) {
            if (via_guest && guest_path) {
                Asm a;
                a.org(0x1000).load_r0((u16)(MMIO + off)).idle();
                b.load(a.words);
                b.regs().pc = 0x1000;
                std::string ab = b.run(3);
                if (!ab.empty()) {
                    dead = true;
                    abort_site = ab;
                }
                return b.regs().r[0];
            }
            return b.t->MMIORead(off);
        }
    };

    Outcome exec_facade(const Plan& plan) {
        Outcome out;
        Hasher log;
        const bool polling = plan.knob("polling", 0) != 0;
        Facade f(plan.knob("guest_path", 0) != 0, polling);
        auto& t = *f.b.t;
        const bool reenter = plan.knob("reenter", 0) != 0 && !polling;
        if (polling)
            out.probes["receiver_without_handlers"]++;
        f.b.reenter_mode = reenter ? 1 : 0;
        ApbpModel c2d, d2c; // CPU->DSP, DSP->CPU
        bool judged_send = false, judged_sem = false, host_op = false, dsp_op = false;

        auto check_state = [&](std::size_t si) {
            u16 d6 = t.MMIORead(0x0D6), d8 = t.MMIORead(0x0D8);
            log.add(d6);
            log.add(d8);
            for (int ch = 0; ch < 3 && out.ok(); ++ch) {
                const int cbit6[3] = {8, 12, 13};
                bool r6 = (d6 >> (5 + ch)) & 1, r8 = (d8 >> (10 + ch)) & 1;
                bool c6 = (d6 >> cbit6[ch]) & 1, c8 = (d8 >> (13 + ch)) & 1;
                bool api_r = t.RecvDataIsReady((u8)ch), api_c = !t.SendDataIsEmpty((u8)ch);
                log.add(api_r);
                log.add(api_c);
                if (api_r != d2c.ready[ch] || api_c != c2d.ready[ch])
                    out.violate("C14.ready", fmt("step %zu (%s): channel %d host API says reply-ready=%d cmd-pending=%d, model %d/%d", si,
                                                 plan.steps[si].op.c_str(), ch, (int)api_r, (int)api_c, (int)d2c.ready[ch], (int)c2d.ready[ch]));
                else if (r6 != api_r || r8 != api_r || c6 != api_c || c8 != api_c)
                    out.violate("C14.status-disagree",
                                fmt("step %zu (%s): channel %d status registers 0x0D6=0x%04x 0x0D8=0x%04x disagree with host API (reply-ready=%d "
                                    "cmd-pending=%d)",
                                    si, plan.steps[si].op.c_str(), ch, d6, d8, (int)api_r, (int)api_c));
                else if (t.PeekRecvData((u8)ch) != d2c.data[ch])
                    out.violate("C14.data", fmt("step %zu: reply channel %d holds 0x%x, last written 0x%x", si, ch, t.PeekRecvData((u8)ch), d2c.data[ch]));
            }
            if (!out.ok())
                return;
            u16 hsem = t.GetSemaphore(), dsem_cc = t.MMIORead(0x0CC), dget = t.MMIORead(0x0D2), dmask = t.MMIORead(0x0CE);
            log.add(hsem);
            log.add(dget);
            if (hsem != d2c.sem || dsem_cc != d2c.sem)
                out.violate("C14.data", fmt("step %zu: DSP->CPU semaphore reads 0x%x (API) / 0x%x (0x0CC), model 0x%x", si, hsem, dsem_cc, d2c.sem));
            else if (dget != c2d.sem || dmask != c2d.mask)
                out.violate("C14.data", fmt("step %zu: CPU->DSP semaphore 0x0D2=0x%x mask 0x0CE=0x%x, model 0x%x / 0x%x", si, dget, dmask, c2d.sem, c2d.mask));
            else if (((d6 >> 9) & 1) != (c2d.signal() ? 1 : 0))
                out.violate("C14.signal-flag", fmt("step %zu (%s): S (0x0D6 bit 9)=%d but (semaphore 0x%x & ~mask 0x%x) %s 0", si,
                                                   plan.steps[si].op.c_str(), (d6 >> 9) & 1, c2d.sem, c2d.mask, c2d.signal() ? "!=" : "=="));
            else if (((d8 >> 9) & 1) != (d2c.signal() ? 1 : 0))
                out.violate("C14.signal-flag", fmt("step %zu (%s): S' (0x0D8 bit 9, CPU side)=%d but DSP->CPU (semaphore 0x%x & ~mask 0x%x) %s 0", si,
                                                   plan.steps[si].op.c_str(), (d8 >> 9) & 1, d2c.sem, d2c.mask, d2c.signal() ? "!=" : "=="));
            u16 d4 = t.MMIORead(0x0D4);
            if (out.ok() && (((d4 >> 8) & 1) != c2d.disable[0] || ((d4 >> 12) & 1) != c2d.disable[1] || ((d4 >> 13) & 1) != c2d.disable[2]))
                out.violate("C14.status-disagree", fmt("step %zu: 0x0D4=0x%04x, model disable bits %d%d%d", si, d4, (int)c2d.disable[0],
                                                       (int)c2d.disable[1], (int)c2d.disable[2]));
        };
        auto judge = [&](std::size_t si, int req, u64 calls, const char* who) {
            judged_sem = true;
            if (polling && who[4] == 'h')
                return; // "the host ...": a polling host installs no handler; flags and values are judged by check_state
            if (req == 1 && calls == 0)
                out.violate("C14.irq-missing", fmt("step %zu (%s 0x%llx): signal flag rose but %s was not interrupted", si, plan.steps[si].op.c_str(),
                                                   (long long)plan.steps[si].arg(0), who));
            else if (req == 0 && calls != 0)
                out.violate("C14.irq-spurious", fmt("step %zu (%s): %s interrupted while the signal flag stays 0", si, plan.steps[si].op.c_str(), who));
        };

        for (std::size_t si = 0; si < plan.steps.size() && out.ok() && !f.dead; ++si) {
            const Step& s = plan.steps[si];
            const std::string& op = s.op;
            int ch = (int)(s.arg(0) % 3);
            u16 bits = (u16)s.arg(0);
            bool vg = s.arg(2) != 0;
            if (op == "run") {
                std::string ab = f.b.run((u64)std::min<s64>(s.arg(0), 200));
                out.sim_cycles += (u64)s.arg(0);
                out.faults_configured["slice"]++;
                out.faults_fired["slice"]++;
                if (!ab.empty()) {
                    f.dead = true;
                    f.abort_site = ab;
                }
                continue;
            }
            // make the edge of ICU request bit 14 visible for this step
            t.MMIOWrite(0x202, 0x4000);
            u64 h0[4] = {f.b.handler_calls[0], f.b.handler_calls[1], f.b.handler_calls[2], f.b.handler_calls[3]};
            auto dsp_irq = [&]() { return (u64)((t.MMIORead(0x200) >> 14) & 1); };
            if (op[0] == 'h')
                host_op = true;
            else
                dsp_op = true;
            if (vg && f.guest_path && op[0] == 'd')
                out.probes["dsp_op_by_guest_instruction"]++;
            if (op == "hsend") {
                bool irq = c2d.send(ch, (u16)s.arg(1));
                t.SendData((u8)ch, (u16)s.arg(1));
                judged_send = true;
                if (irq && !dsp_irq())
                    out.violate("C14.irq-missing", fmt("step %zu: SendData(%d) did not raise the DSP interrupt request (ICU bit 14)", si, ch));
                else if (!irq && dsp_irq())
                    out.violate("C14.irq-spurious", fmt("step %zu: SendData(%d) raised the DSP interrupt although CI%d is set", si, ch, ch));
            } else if (op == "dsend") {
                bool irq = d2c.send(ch, (u16)s.arg(1));
                f.dsp_write((u16)(0x0C0 + 4 * ch), (u16)s.arg(1), vg);
                judged_send = true;
                if (irq && reenter) {
                    d2c.recv(ch); // the handler consumed the reply before the send returned
                    out.probes["reply_received_inside_handler"]++;
                }
                u64 calls = f.b.handler_calls[ch] - h0[ch];
                if (irq && calls != 1 && !polling)
                    out.violate(calls ? "C14.irq-spurious" : "C14.irq-missing",
                                fmt("step %zu: DSP write to REPLY%d invoked the host handler %llu times (expected exactly 1)", si, ch, (unsigned long long)calls));
            } else if (op == "hrecv") {
                u16 want = d2c.recv(ch), got = t.RecvData((u8)ch);
                if (got != want)
                    out.violate("C14.data", fmt("step %zu: RecvData(%d) returned 0x%x, last written 0x%x", si, ch, got, want));
            } else if (op == "drecv") {
                u16 want = c2d.recv(ch), got = f.dsp_read((u16)(0x0C2 + 4 * ch), vg);
                if (!f.dead && got != want)
                    out.violate("C14.data", fmt("step %zu: DSP read of CMD%d returned 0x%x, last written 0x%x", si, ch, got, want));
            } else if (op == "hpeek") {
                if (t.PeekRecvData((u8)ch) != d2c.peek(ch))
                    out.violate("C14.data", fmt("step %zu: PeekRecvData(%d) returned 0x%x, last written 0x%x", si, ch, t.PeekRecvData((u8)ch), d2c.peek(ch)));
            } else if (op == "dpeek") {
                u16 got = f.dsp_read((u16)(0x0C0 + 4 * ch), vg);
                if (!f.dead && got != d2c.peek(ch))
                    out.violate("C14.data", fmt("step %zu: DSP read of REPLY%d returned 0x%x, last written 0x%x", si, ch, got, d2c.peek(ch)));
            } else if (op == "ddis") {
                u16 v = 0;
                const int pos[3] = {8, 12, 13};
                for (int c = 0; c < 3; ++c) {
                    c2d.disable[c] = (s.arg(0) >> c) & 1;
                    v |= (u16)(c2d.disable[c] ? 1 : 0) << pos[c];
                }
                f.dsp_write(0x0D4, v, vg);
            } else if (op == "hsem") {
                int req = c2d.set_sem(bits);
                t.SetSemaphore(bits);
                judge(si, req, dsp_irq(), "the DSP (ICU bit 14)");
            } else if (op == "dack") {
                int req = c2d.ack_sem(bits);
                f.dsp_write(0x0D0, bits, vg);
                judge(si, req, dsp_irq(), "the DSP (ICU bit 14)");
            } else if (op == "dmask") {
                int req = c2d.mask_sem(bits);
                if (req == 1)
                    out.probes["unmask_with_pending_bits"]++;
                f.dsp_write(0x0CE, bits, vg);
                judge(si, req, dsp_irq(), "the DSP (ICU bit 14)");
            } else if (op == "dsem") {
                int req = d2c.set_sem(bits);
                f.dsp_write(0x0CC, bits, vg);
                judge(si, req, f.b.handler_calls[3] - h0[3], "the host (semaphore handler)");
            } else if (op == "hclr") {
                int req = d2c.ack_sem(bits);
                t.ClearSemaphore(bits);
                judge(si, req, f.b.handler_calls[3] - h0[3], "the host (semaphore handler)");
            } else if (op == "hmask") {
                int req = d2c.mask_sem(bits);
                if (req == 1)
                    out.probes["unmask_with_pending_bits"]++;
                t.MaskSemaphore(bits);
                judge(si, req, f.b.handler_calls[3] - h0[3], "the host (semaphore handler)");
            } else if (op == "hget") {
                if (t.GetSemaphore() != d2c.sem)
                    out.violate("C14.data", fmt("step %zu: GetSemaphore()=0x%x, model 0x%x", si, t.GetSemaphore(), d2c.sem));
            } else if (op == "dstat") {
                (void)f.dsp_read(0x0D6, vg);
            } else {
                continue;
            }
            if (f.dead)
                break;
            // no handler other than the one belonging to this operation may have run
            for (int c = 0; c < 3 && out.ok(); ++c)
                if (!(op == "dsend" && c == ch) && f.b.handler_calls[c] != h0[c])
                    out.violate("C14.irq-spurious", fmt("step %zu (%s): host handler of channel %d invoked", si, op.c_str(), c));
            if (out.ok() && !(op == "dsem" || op == "hclr" || op == "hmask") && f.b.handler_calls[3] != h0[3])
                out.violate("C14.irq-spurious", fmt("step %zu (%s): host semaphore handler invoked", si, op.c_str()));
            if (out.ok() && !(op == "hsend" || op == "hsem" || op == "dack" || op == "dmask") && dsp_irq())
                out.violate("C14.irq-spurious", fmt("step %zu (%s): DSP interrupt request bit 14 raised", si, op.c_str()));
            if (out.ok())
                check_state(si);
            Hasher sg;
            sg.add(c2d.ready[0] | c2d.ready[1] << 1 | c2d.ready[2] << 2 | d2c.ready[0] << 3 | d2c.ready[1] << 4 | d2c.ready[2] << 5);
            sg.add(c2d.signal() | d2c.signal() << 1);
            sg.add((c2d.mask != 0) | (d2c.mask != 0) << 1);
            sg.add(c2d.disable[0] | c2d.disable[1] << 1 | c2d.disable[2] << 2);
            out.state_sigs.insert(sg.h);
        }
        if (f.dead) {
            out.aborted = true;
            out.abort_site = f.abort_site;
        }
        out.nontrivial = judged_send && judged_sem && host_op && dsp_op;
        Hasher sg;
        sg.add(0);
        sg.add(c2d.ready[0] | c2d.ready[1] << 1 | c2d.ready[2] << 2 | d2c.ready[0] << 3 | d2c.ready[1] << 4 | d2c.ready[2] << 5);
        sg.add(c2d.signal() | d2c.signal() << 1);
        out.sig = sg.h;
        out.hash = log.h;
        return out;
    }

    Outcome execute(const Plan& plan) override {
        return plan.knob("comp", 0) ? exec_component(plan) : exec_facade(plan);
    }
};

Registrar reg(new C14);

} // namespace
} // namespace sim
