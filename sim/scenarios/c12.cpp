// C12 — MMIO registers hold what was written and do not alias one another.
// Histories of reads and writes over all 0x800 offsets through both access paths (host MMIO accessor
// at any 0x800 mirror; DSP data access at the window base, by the host data accessor or by a guest
// instruction), with relocation of the window and of the DMA channel select in mid-history.
// Oracles: read-back of documented fields (MmioModel) and the frame condition — a write changes only
// the written offset and the offsets named by the documented couplings.
#include "../core/box.h"
#include "../guest/firmware.h"
#include "../models/mmio_model.h"

namespace sim {
namespace {

const u16 kDocumented[] = {
    0x20, 0x24, 0x26, 0x28, 0x2A, 0x30, 0x34, 0x36, 0x38, 0x3A, 0x22, 0x32, 0x0C0, 0x0C4, 0x0C8, 0x0CC, 0x0CE, 0x0D0, 0x0D4, 0x0E2,
    0x0E4, 0x0E6, 0x0E8, 0x0EA, 0x0EC, 0x0EE, 0x0F0, 0x0F2, 0x10E, 0x110, 0x114, 0x116, 0x11A, 0x11E, 0x184, 0x1BE, 0x1C0, 0x1C2,
    0x1C4, 0x1C6, 0x1C8, 0x1CA, 0x1CC, 0x1CE, 0x1D0, 0x1D2, 0x1D4, 0x1D6, 0x1D8, 0x1DA, 0x1DC, 0x1DE, 0x202, 0x204, 0x206, 0x208,
    0x20A, 0x20C, 0x2A2, 0x2BE, 0x2C6, 0x2CA, 0x322, 0x33E, 0x346, 0x34A, 0x01A, 0x18C, 0x0E0, 0x200, 0x0D6, 0x0D8, 0x0D2, 0x2C2, 0x342};

u16 sanitize(u16 off, u16 v) {
    switch (off) {
    case 0x20:
    case 0x30:
        // TS = 0, CM in 0..3; paused unless in event-count mode (where time does not count, only EW writes do)
        return (u16)((v & 0xFFEC) | (((v >> 2) & 3) == 3 ? 0 : 0x0100));
    case 0x22:
    case 0x32:
        return (u16)(v & 1); // EW is bit 0; the other bits are not documented
    case 0x112:
        return 0;
    case 0x11A:
        return (u16)(v & ~0x40);
    case 0x11E:
        return (u16)(v & 0xFC00);
    case 0x1BE:
        return (u16)(v & 7);
    case 0x1DE:
        return v == 0x40C0 ? (u16)0x40C1 : v;
    default:
        return v;
    }
}

class C12 : public Scenario {
public:
    const char* prop() const override {
        return "C12";
    }
    const char* components_real() const override {
        return "MMIORegion (src/mmio.cpp) with every bound peripheral register, MemoryInterface MMIO window routing, Teakra facade, "
               "interpreter for guest-issued accesses";
    }
    const char* components_stub() const override {
        return "host CPU (plan steps); no time passes except the 3-4 cycles of a guest access stub (timers paused or in event-count mode, audio period 4096)";
    }
    const char* nontrivial_rule() const override {
        return "non-trivial if at least 3 writes were judged by the frame condition and at least one access went through each of "
               "the two paths; distinct = distinct (plan shape hash, signature of touched register groups)";
    }
    std::pair<int, int> pool_need() const override {
        return {1, 0};
    }
    std::vector<std::pair<std::string, s64>> simplest_knobs() const override {
        return {{"guest_path", 0}};
    }

    Plan generate(u64 seed, const Tier& tier) override {
        Rng r(seed);
        Plan p;
        p.set_knob("guest_path", (s64)r.chance(1, 2));
        int n = (int)r.range(4, tier.thorough ? 160 : 60);
        int w_chan = (int)r.range(0, 3), w_reloc = (int)r.range(0, 2);
        for (int i = 0; i < n; ++i) {
            int x = (int)r.below(20 + (u64)w_chan + (u64)w_reloc);
            u16 v = r.chance(1, 8) ? (u16)0xFFFF : r.chance(1, 8) ? (u16)0 : (u16)(r.next() & 0xFFFF);
            s64 path = (s64)r.below(8); // 0..4 host, 5,6 dsp api, 7 guest
            s64 mirror = r.chance(1, 4) ? (s64)r.below(32) : 0;
            if (x < 12 && r.chance(1, 6)) {
                // timer in event-count mode: configuration (MU either way), events, start value, software writes to the counter mirror
                u16 tb = (u16)(0x20 + 0x10 * r.below(2));
                switch (r.below(5)) {
                case 0:
                    p.add("w", {(s64)tb, (s64)(0x000C | (r.chance(1, 2) ? 0x0200 : 0) | (r.chance(2, 3) ? 0x0400 : 0) | (r.chance(1, 8) ? 0x0100 : 0)), path, mirror});
                    break;
                case 1:
                case 2:
                    p.add("w", {(s64)(tb + 2), 1, path, mirror});
                    break;
                case 3:
                    p.add("w", {(s64)(tb + 4), (s64)r.range(1, 4), path, mirror});
                    break;
                default:
                    p.add("w", {(s64)(tb + 8 + 2 * r.below(2)), (s64)v, path, mirror});
                    break;
                }
            } else if (x < 12) {
                u16 off = r.chance(3, 4) ? r.pick(kDocumented) : (u16)r.below(0x800);
                if (r.chance(1, 3) && off >= 0x1C0 && off <= 0x1DE)
                    off = (u16)(0x1C0 + 2 * r.below(16));
                p.add("w", {(s64)off, (s64)v, path, mirror});
            } else if (x < 16) {
                u16 off = r.chance(3, 4) ? r.pick(kDocumented) : (u16)r.below(0x800);
                p.add("r", {(s64)off, 0, path, mirror});
            } else if (x < 18) {
                p.add("hsend", {(s64)r.below(3), (s64)v});
            } else if (x < 20) {
                p.add("rcmd", {(s64)r.below(3), 0, path, mirror});
            } else if (r.chance(1, 40)) {
                p.add("reset", {}); // Reset() in mid-history: every register returns to its reset value, the window to channel 0
            } else if (x < 20 + w_chan) {
                p.add("w", {0x1BE, (s64)r.below(8), path, mirror});
            } else {
                const u16 bases[] = {0x8000, 0x0000, 0x0400, 0x4000, 0xF800, 0xFC00, 0x7C00, 0xA000};
                p.add("w", {0x11E, (s64)(r.chance(2, 3) ? r.pick(bases) : (u16)(r.next() & 0xFC00)), path, mirror});
            }
        }
        return p;
    }

    Outcome execute(const Plan& plan) override {
        Outcome out;
        Hasher log;
        auto boxp = BoxPool::take(false);
        Box& b = *boxp;
        b.install_callbacks();
        b.reset();
        auto& t = *b.t;
        MmioModel m;
        bool guest_ok = plan.knob("guest_path", 0) != 0;
        t.MMIOWrite(0x202, 0xFFFF); // all request bits acknowledged: known state
        u16 base = 0x8000;
        m.set(0x11E, base, 0xFFFF);
        u64 frames_judged = 0;
        bool used_host = false, used_dsp = false;
        std::string dead;
        Hasher groups;

        auto snapshot = [&](std::vector<u16>& s) {
            s.assign(0x800, 0);
            for (u16 o = 0; o < 0x800; ++o) {
                if (o == 0x0C2 || o == 0x0C6 || o == 0x0CA)
                    continue;
                s[o] = t.MMIORead(o);
            }
        };
        auto reachable = [&](u16 off) { return (u32)base + off <= 0xFFFF; };
        auto do_write = [&](u16 off, u16 v, s64 path, s64 mirror) {
            if (path >= 5 && !reachable(off))
                path = 0;
            if (path == 7 && !guest_ok)
                path = 5;
            try {
                if (path <= 4) {
                    used_host = true;
                    t.MMIOWrite((u16)(off + 0x800 * (mirror & 31)), v);
                } else if (path <= 6) {
                    used_dsp = true;
                    t.DataWrite((u16)(base + off), v);
                } else {
                    used_dsp = true;
                    out.probes["guest_instruction_access"]++;
                    Asm a;
                    a.org(0x1000).store_imm((u16)(base + off), v).idle();
                    b.load(a.words);
                    b.regs().pc = 0x1000;
                    dead = b.run(4);
                    out.sim_cycles += 4;
                }
            } catch (const VerifAssert& e) {
                dead = e.file + ":" + std::to_string(e.line);
            }
        };
        auto do_read = [&](u16 off, s64 path, s64 mirror) -> u16 {
            if (path >= 5 && !reachable(off))
                path = 0;
            if (path == 7 && !guest_ok)
                path = 5;
            try {
                if (path <= 4) {
                    used_host = true;
                    return t.MMIORead((u16)(off + 0x800 * (mirror & 31)));
                }
                if (path <= 6) {
                    used_dsp = true;
                    return t.DataRead((u16)(base + off));
                }
                used_dsp = true;
                out.probes["guest_instruction_access"]++;
                Asm a;
                a.org(0x1000).load_r0((u16)(base + off)).idle();
                b.load(a.words);
                b.regs().pc = 0x1000;
                dead = b.run(3);
                out.sim_cycles += 3;
                return b.regs().r[0];
            } catch (const VerifAssert& e) {
                dead = e.file + ":" + std::to_string(e.line);
                return 0;
            }
        };
        auto frame = [&](std::size_t si, u16 off, const std::vector<u16>& before, const std::set<u16>& allowed, const char* what) {
            std::vector<u16> after;
            snapshot(after);
            ++frames_judged;
            for (u16 o = 0; o < 0x800 && out.ok(); ++o) {
                if (o == off || allowed.count(o))
                    continue;
                if (before[o] != after[o])
                    out.violate(in_dma_window(o) || in_dma_window(off) ? "C12.channel-window" : "C12.alias",
                                fmt("step %zu: %s offset 0x%03x changed offset 0x%03x from 0x%04x to 0x%04x (DMA channel %u, window base 0x%04x)",
                                    si, what, off, o, before[o], after[o], m.active, base));
            }
            // documented fields read back (host path, from the snapshot)
            for (u16 o = 0; o < 0x800 && out.ok(); ++o) {
                if (!m.mask[o] || o == 0x0C2 || o == 0x0C6 || o == 0x0CA)
                    continue;
                if ((after[o] & m.mask[o]) != (m.val[o] & m.mask[o]))
                    out.violate(in_dma_window(o) ? "C12.channel-window" : "C12.readback",
                                fmt("step %zu: after %s offset 0x%03x, offset 0x%03x reads 0x%04x, documented fields (mask 0x%04x) must read 0x%04x "
                                    "(DMA channel %u)",
                                    si, what, off, o, after[o], m.mask[o], (u16)(m.val[o] & m.mask[o]), m.active));
            }
            for (u16 o = 0; o < 0x800; o += 16)
                log.add(after[o] | (u32)after[o + 2] << 16);
        };

        for (std::size_t si = 0; si < plan.steps.size() && out.ok() && dead.empty(); ++si) {
            const Step& s = plan.steps[si];
            if (s.op == "w") {
                u16 off = (u16)(s.arg(0) & 0x7FF);
                u16 v = sanitize(off, (u16)s.arg(1));
                std::vector<u16> before;
                snapshot(before);
                do_write(off, v, s.arg(2), s.arg(3));
                if (!dead.empty())
                    break;
                u32 tc0 = m.counter[0], tc1 = m.counter[1];
                std::set<u16> allowed = m.write(off, v);
                if ((off == 0x22 || off == 0x32) && (tc0 != m.counter[0] || tc1 != m.counter[1])) {
                    out.probes["timer_event_counted"]++;
                    if (!m.mu[off == 0x22 ? 0 : 1])
                        out.probes["timer_event_counted_with_mirror_off"]++;
                    if (allowed.count(0x200))
                        out.probes["timer_event_reached_zero"]++;
                }
                if (off == 0x11E) {
                    base = v;
                    out.faults_configured["relocate"]++;
                    out.faults_fired["relocate"]++;
                }
                if (off == 0x1BE) {
                    out.faults_configured["relocate"]++;
                    out.faults_fired["relocate"]++;
                    out.probes["channel_select_changed"]++;
                }
                frame(si, off, before, allowed, "a write to");
                if (!out.ok())
                    break;
                // both paths must agree on the written register
                if (off != 0x0C2 && off != 0x0C6 && off != 0x0CA && reachable(off)) {
                    u16 h = t.MMIORead((u16)(off + 0x800 * (s.arg(3) & 31))), d = t.DataRead((u16)(base + off));
                    used_dsp = true;
                    if (h != d)
                        out.violate("C12.path-disagree", fmt("step %zu: offset 0x%03x reads 0x%04x through the host accessor and 0x%04x through "
                                                             "the DSP data path (base 0x%04x)", si, off, h, d, base));
                }
                // host API views of the same registers
                for (u16 i = 0; i < 3 && out.ok(); ++i) {
                    u16 o2 = (u16)(0x0E2 + 6 * i), o4 = (u16)(0x0E4 + 6 * i), o6 = (u16)(0x0E6 + 6 * i);
                    if (m.mask[o2] && t.AHBMGetUnitSize(i) != ((m.val[o2] >> 4) & 3))
                        out.violate("C12.readback", fmt("step %zu: AHBMGetUnitSize(%u)=%u but TYPE field of 0x%03x was written %u", si, i,
                                                        t.AHBMGetUnitSize(i), o2, (m.val[o2] >> 4) & 3));
                    else if (m.mask[o4] && t.AHBMGetDirection(i) != ((m.val[o4] >> 8) & 1))
                        out.violate("C12.readback", fmt("step %zu: AHBMGetDirection(%u)=%u but W bit of 0x%03x was written %u", si, i,
                                                        t.AHBMGetDirection(i), o4, (m.val[o4] >> 8) & 1));
                    else if (m.mask[o6] && t.AHBMGetDmaChannel(i) != m.val[o6])
                        out.violate("C12.readback", fmt("step %zu: AHBMGetDmaChannel(%u)=0x%x but 0x%03x was written 0x%x", si, i,
                                                        t.AHBMGetDmaChannel(i), o6, m.val[o6]));
                }
                if (out.ok() && m.chmask[0][1] && t.DMAChan0GetSrcHigh() != m.chval[0][1])
                    out.violate("C12.channel-window", fmt("step %zu: DMAChan0GetSrcHigh()=0x%x, channel 0 SRC_ADDR_HIGH was written 0x%x", si,
                                                          t.DMAChan0GetSrcHigh(), m.chval[0][1]));
                if (out.ok() && m.chmask[0][3] && t.DMAChan0GetDstHigh() != m.chval[0][3])
                    out.violate("C12.channel-window", fmt("step %zu: DMAChan0GetDstHigh()=0x%x, channel 0 DST_ADDR_HIGH was written 0x%x", si,
                                                          t.DMAChan0GetDstHigh(), m.chval[0][3]));
                if (out.ok() && t.MMIORead(0x1BE) != m.active)
                    out.violate("C12.channel-window", fmt("step %zu: channel select changed to %u by a host query", si, t.MMIORead(0x1BE)));
                groups.add(off >> 5);
                Hasher sg;
                sg.add(off >> 4);
                sg.add(m.active);
                sg.add(base >> 10);
                sg.add((u64)(s.arg(2) >= 5));
                out.state_sigs.insert(sg.h);
            } else if (s.op == "r") {
                u16 off = (u16)(s.arg(0) & 0x7FF);
                if (off == 0x0C2 || off == 0x0C6 || off == 0x0CA)
                    continue;
                u16 got = do_read(off, s.arg(2), s.arg(3));
                if (!dead.empty())
                    break;
                log.add(got);
                if (m.mask[off] && (got & m.mask[off]) != (m.val[off] & m.mask[off]))
                    out.violate("C12.readback", fmt("step %zu: offset 0x%03x reads 0x%04x (path %lld), documented fields (mask 0x%04x) must read 0x%04x",
                                                    si, off, got, (long long)s.arg(2), m.mask[off], (u16)(m.val[off] & m.mask[off])));
            } else if (s.op == "reset") {
                out.faults_configured["reset"]++;
                out.faults_fired["reset"]++;
                if (m.active != 0)
                    out.probes["reset_with_channel_selected"]++;
                b.reset();
                m = MmioModel();
                base = 0x8000;
                m.set(0x11E, base, 0xFFFF);
                m.set(0x1BE, 0, 0x0007);
                u16 got = t.MMIORead(0x1BE);
                if (got != 0)
                    out.violate("C12.channel-window", fmt("step %zu: after Reset the channel select register reads %u", si, got));
            } else if (s.op == "hsend") {
                std::vector<u16> before;
                snapshot(before);
                t.SendData((u8)(s.arg(0) % 3), (u16)s.arg(1));
                m.host_send((int)(s.arg(0) % 3), (u16)s.arg(1));
                frame(si, 0x7FF, before, {0x0D6, 0x0D8, 0x200}, "SendData, pseudo");
            } else if (s.op == "rcmd") {
                int ch = (int)(s.arg(0) % 3);
                std::vector<u16> before;
                snapshot(before);
                u16 got = do_read((u16)(0x0C2 + 4 * ch), s.arg(2), s.arg(3));
                if (!dead.empty())
                    break;
                if (got != m.c2d.data[ch])
                    out.violate("C12.readback", fmt("step %zu: CMD%d reads 0x%04x, host sent 0x%04x", si, ch, got, m.c2d.data[ch]));
                m.read_cmd(ch);
                frame(si, (u16)(0x0C2 + 4 * ch), before, {0x0D6, 0x0D8}, "a read of");
            }
        }
        if (!dead.empty()) {
            out.aborted = true;
            out.abort_site = dead;
        }
        out.nontrivial = frames_judged >= 3 && used_host && used_dsp;
        out.probes["frames_judged"] += frames_judged;
        out.sig = groups.h;
        out.hash = log.h;
        return out;
    }
    static bool in_dma_window(u16 o) {
        return o >= 0x1C0 && o <= 0x1DE;
    }
};

Registrar reg(new C12);

} // namespace
} // namespace sim
