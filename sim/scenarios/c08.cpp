// C08 — calls, returns, push/pop and context switches restore state exactly (claimed for the clause
// with a schedule in it: an interrupt arriving at an arbitrary instruction boundary, serviced and
// returned from, is transparent). Twin run: program P with injected interrupts vs P alone; whenever
// the interrupted machine is about to execute a main-program instruction its registers (all
// program-visible ones and the two-way banks), live stack and, at the end, all data memory must equal
// the undisturbed run's at the same main-program step.
#include <map>
#include "../core/box.h"
#include "../guest/firmware.h"

namespace sim {
namespace {

constexpr u32 P_MAIN = 0x0100, P_SUBS = 0x0800, HANDLERS = 0x0020, STACK_TOP = 0x0F00, STACK_LOW = 0x0E00;
constexpr u16 CELLS = 0x0A00;

struct PushPop {
    u16 push, pop;
};
// st2/stt2 are not in the menu: they expose the pending bits ip0-2/ipv, which legitimately differ while a
// request is latched but not yet taken
const PushPop kPairs[] = {
    {op::PUSH_R0, op::POP_R0},     {op::PUSH_R1, op::POP_R1},     {op::PUSH_R7, op::POP_R7},     {op::PUSH_A0L, op::POP_A0L},
    {op::PUSH_A0H, op::POP_A0H},   {op::PUSH_SV, op::POP_SV},     {op::PUSH_X0, op::POP_X0},     {op::PUSH_X1, op::POP_X1},
    {op::PUSH_Y0, op::POP_Y0},     {op::PUSH_Y1, op::POP_Y1},     {op::PUSH_P0, op::POP_P0},     {op::PUSH_P1, op::POP_P1},
    {op::PUSH_REPC, op::POP_REPC}, {op::PUSH_LC, op::POP_LC},     {op::PUSH_ST0, op::POP_ST0},   {op::PUSH_ST1, op::POP_ST1},
    {op::PUSH_STT0, op::POP_STT0}, {op::PUSH_STT1, op::POP_STT1}, {op::PUSH_MOD0, op::POP_MOD0},
    {op::PUSH_MOD1, op::POP_MOD1}, {op::PUSH_MOD2, op::POP_MOD2}, {op::PUSH_CFGI, op::POP_CFGI}, {op::PUSH_CFGJ, op::POP_CFGJ},
    {op::PUSH_AR0, op::POP_AR0},   {op::PUSH_ARP0, op::POP_ARP0}, {op::PUSH_A0E, op::POP_A0E},   {op::PUSH_A1E, op::POP_A1E},
};
constexpr u16 MODR_R0 = 0x0080; // modr [r0]: r0 unchanged, fr := (r0 == 0)
const u16 kAlu1[] = {op::INC_A0, op::INC_A1, op::DEC_A0, op::DEC_A1, op::CLR_A0, op::CLR_A1, op::CLR_B0, op::CLR_B1, op::ADD_R0_A0, MODR_R0};
const u16 kAluImm[] = {0x86C0, 0x8EC0, 0x80C0, 0x82C0, 0x8CC0, 0x87C0};
const u16 kMovImmRegs[] = {op::R0, op::R1, op::R2, op::R3, op::R4, op::R5, op::R7, op::Y0, op::A0, op::A1, op::A0L, op::A1L, op::A0H, op::A1H, op::SV};

// pairs whose pop restores the whole machine state (accumulator parts, and st0/st1 which carry four extension bits of a0/a1,
// are left out: popping those rewrites the rest of the accumulator by sign extension)
const PushPop kWholePairs[] = {
    {op::PUSH_R0, op::POP_R0},     {op::PUSH_R1, op::POP_R1},     {op::PUSH_R7, op::POP_R7},     {op::PUSH_SV, op::POP_SV},
    {op::PUSH_X0, op::POP_X0},     {op::PUSH_X1, op::POP_X1},     {op::PUSH_Y0, op::POP_Y0},     {op::PUSH_Y1, op::POP_Y1},
    {op::PUSH_REPC, op::POP_REPC}, {op::PUSH_LC, op::POP_LC},     {op::PUSH_STT0, op::POP_STT0},
    {op::PUSH_STT1, op::POP_STT1}, {op::PUSH_MOD0, op::POP_MOD0}, {op::PUSH_MOD1, op::POP_MOD1}, {op::PUSH_MOD2, op::POP_MOD2},
    {op::PUSH_CFGI, op::POP_CFGI}, {op::PUSH_CFGJ, op::POP_CFGJ}, {op::PUSH_AR0, op::POP_AR0},   {op::PUSH_ARP0, op::POP_ARP0},
};

struct Builder {
    Asm a;
    std::vector<u32> sub_addr;
    std::vector<std::pair<u32, u32>> ident; // [start, end): code whose net effect on every observed register must be nil
    void simple(s64 k, s64 x, s64 y) { // a gadget that changes only data registers / flags / data cells
        switch (k % 7) {
        case 0:
            a.w(kAlu1[x % 10]);
            break;
        case 1:
            a.mov_imm((op::Reg)kMovImmRegs[x % 15], (u16)y);
            break;
        case 2:
            a.w2(kAluImm[x % 6], (u16)y);
            break;
        case 3:
            a.mov_imm(op::R1, (u16)(CELLS + (x & 0x3F)));
            a.w(op::MOV_R0_TO_MR1);
            break;
        case 4:
            a.mov_imm(op::R1, (u16)(CELLS + (x & 0x3F)));
            a.w(x & 0x40 ? op::ADD_MR1_A0 : op::MOV_MR1_TO_R0);
            break;
        case 5:
            if (x & 1)
                a.store_a0l_abs((u16)(CELLS + 0x40 + (y & 0x3F)));
            else
                a.load_a1_abs((u16)(CELLS + 0x40 + (y & 0x3F)));
            break;
        default:
            if (x & 1)
                a.mov_imm_b0((u16)y);
            else
                a.mov_imm_r6((u16)y);
            break;
        }
    }
    void gadget(const Step& s) {
        s64 k = s.arg(0) % 15, x = s.arg(1), y = s.arg(2);
        switch (k) {
        case 0:
        case 1:
        case 2:
        case 3:
            simple(x, y, s.arg(3));
            break;
        case 4: { // push/pop pair, optionally nested, with something in between
            const PushPop& p = kPairs[x % (sizeof kPairs / sizeof kPairs[0])];
            const PushPop& q = kPairs[y % (sizeof kPairs / sizeof kPairs[0])];
            a.w(p.push);
            if (s.arg(3) & 1)
                a.w(q.push);
            simple(0, s.arg(3) >> 1, 0);
            if (s.arg(3) & 1)
                a.w(q.pop);
            a.w(p.pop);
            break;
        }
        case 5: { // whole accumulator through its multi-word pair
            const u16 pa[4][2] = {{op::PUSHA_A0, op::POPA_A0}, {op::PUSHA_A1, op::POPA_A1}, {op::PUSHA_B0, op::POPA_B0}, {op::PUSHA_B1, op::POPA_B1}};
            a.w(pa[x % 4][0]);
            simple(0, y, 0);
            a.w(pa[x % 4][1]);
            break;
        }
        case 6: // call a subroutine
            if (!sub_addr.empty())
                a.call(sub_addr[x % sub_addr.size()], 0);
            break;
        case 7: // local subroutine through callr
            a.callr(1);
            a.brr(2);
            a.w(kAlu1[x % 9]);
            a.w(op::RET);
            break;
        case 8: // indirect call
            if (!sub_addr.empty()) {
                a.mov_imm(op::A0L, (u16)sub_addr[x % sub_addr.size()]);
                a.w(0xD480);
            }
            break;
        case 9: // bank exchange applied twice
            switch (x % 7) {
            case 0:
                a.w(op::BANKR);
                simple(0, y, 0);
                a.w(op::BANKR);
                break;
            case 1:
                a.w(0x4B88); // banke r0
                a.mov_imm(op::R0, (u16)y);
                a.w(0x4B88);
                break;
            case 2:
            case 3: { // banke with any of the 64 flag sets, applied twice with nothing in between: identity
                u32 st = a.at;
                a.w((u16)(0x4B80 | (y & 0x3F)));
                a.w((u16)(0x4B80 | (y & 0x3F)));
                ident.push_back({st, a.at});
                break;
            }
            case 4: { // every bankr form applied twice: identity
                const u16 forms[4] = {0x8CDF, (u16)(0x8CDC | (y & 1)), (u16)(0x8CD0 | (y & 1) << 2 | ((y >> 1) & 3)), (u16)(0x8CD8 | ((y >> 1) & 3))};
                u32 st = a.at;
                a.w(forms[(y >> 3) & 3]);
                a.w(forms[(y >> 3) & 3]);
                ident.push_back({st, a.at});
                break;
            }
            case 5: { // explicit context store + restore (one level of shadow only: no interrupt may come in between)
                a.w(op::DINT);
                u32 st = a.at;
                a.w(op::CNTX_S);
                a.w(op::CNTX_R);
                ident.push_back({st, a.at});
                a.w(op::EINT);
                break;
            }
            default: { // push / pop of a register or status / configuration word
                const PushPop& p = kWholePairs[y % (sizeof kWholePairs / sizeof kWholePairs[0])];
                u32 st = a.at;
                a.w(p.push);
                a.w(p.pop);
                ident.push_back({st, a.at});
                break;
            }
            }
            break;
        case 10: // single-instruction repeat
            a.rep_imm((u8)(x % 7));
            a.w(kAlu1[y % 4]);
            break;
        case 11: { // block repeat with a short body
            u32 start = a.at + 2;
            int body = 1 + (int)(y % 3);
            bool two_word_last = (s.arg(3) & 1) != 0;
            u32 end = start + (u32)body - 1 + (two_word_last ? 1 : 0);
            a.bkrep_imm((u8)(x % 4), end);
            for (int i = 0; i < body - 1; ++i)
                a.w(kAlu1[(y + i) % 8]);
            if (two_word_last)
                a.w2(kAluImm[y % 6], (u16)s.arg(3));
            else
                a.w(kAlu1[(y + 3) % 8]);
            break;
        }
        case 12: // conditional branch over one instruction (flags matter)
            a.brr(1, (u16)(1 + (x % 2)));
            a.w(kAlu1[y % 8]);
            break;
        case 13: // critical section: an interrupt arriving inside is deferred to the eint, and ie reads 0 in between
            a.w(op::DINT);
            simple(x, y, s.arg(3));
            if (y & 1)
                simple(y, x, s.arg(3));
            a.w(op::EINT);
            break;
        default:
            a.w(op::NOP);
            break;
        }
    }
};

class C08 : public Scenario {
public:
    const char* prop() const override {
        return "C08";
    }
    const char* components_real() const override {
        return "Interpreter: interrupt entry/return, PushPC/PopPC, ContextStore/Restore, call/ret forms, push/pop forms, bankr/banke; "
               "RegisterState shadow banks; ICU software trigger";
    }
    const char* components_stub() const override {
        return "host CPU (injects software interrupts at chosen instruction boundaries)";
    }
    const char* nontrivial_rule() const override {
        return "non-trivial if at least one injected interrupt was entered while the main program had live state (inside a call, "
               "between a push and its pop, inside a loop or with non-zero accumulators) and at least one comparison followed the "
               "return; distinct = distinct (plan shape hash, signature of handler variant x configuration bits x entry contexts)";
    }
    std::pair<int, int> pool_need() const override {
        return {3, 0};
    }
    std::vector<std::pair<std::string, s64>> simplest_knobs() const override {
        return {{"variant", 2}, {"line", 0}, {"cpc", 1}, {"ccnta", 1}, {"crep", 1}, {"stp16", 0}, {"retcond", 0}};
    }

    Plan generate(u64 seed, const Tier& tier) override {
        Rng r(seed);
        Plan p;
        p.set_knob("variant", (s64)r.below(3)); // 0 hardware context switch, 1 explicit cntx, 2 manual save
        p.set_knob("line", (s64)r.below(4));    // 0..2 int lines, 3 vectored
        p.set_knob("cpc", (s64)r.below(2));
        p.set_knob("ccnta", (s64)r.below(2));
        p.set_knob("crep", (s64)r.below(2));
        p.set_knob("clob", (s64)(r.next() & 0xFFFF));
        p.set_knob("regseed", (s64)(r.next() & 0xFFFFFFF)); // initial values of the data registers (set through the register accessor)
        p.set_knob("stp16", (s64)r.chance(1, 2));           // banke also exchanges the 16-bit steps
        p.set_knob("retcond", (s64)r.below(8));             // 0,1: unconditional return; else a conditional return followed by its complement
        int nsub = (int)r.below(4);
        for (int i = 0; i < nsub; ++i)
            p.add("sub", {(s64)r.below(7), (s64)(r.next() & 0xFFFF), (s64)(r.next() & 0xFFFF), (s64)r.below(4)});
        int n = (int)r.range(4, tier.thorough ? 60 : 36);
        for (int i = 0; i < n; ++i)
            p.add("p", {(s64)r.below(15), (s64)(r.next() & 0xFFFF), (s64)(r.next() & 0xFFFF), (s64)(r.next() & 0xFFFF)});
        int k = (int)r.range(1, 3);
        for (int i = 0; i < k; ++i)
            p.add("inj", {(s64)r.below(1000)});
        if (r.chance(1, 3)) // back-to-back
            p.add("inj", {p.steps.back().arg(0) + 1});
        return p;
    }

    struct Machine {
        std::unique_ptr<Box> boxp;
        Box& b;
        u32 end_addr = 0;
        u32 hvec = 0;
        std::vector<std::pair<u32, u32>> ident;
        Machine() : boxp(BoxPool::take(false)), b(*boxp) {}
    };

    static void setup(const Plan& plan, Machine& m) {
        Box& b = m.b;
        b.install_callbacks();
        b.reset();
        int variant = (int)plan.knob("variant", 2), line = (int)plan.knob("line", 0);
        bool ccnta = plan.knob("ccnta", 1), crep = plan.knob("crep", 1), cpc = plan.knob("cpc", 1);
        u16 clob = (u16)plan.knob("clob", 0);
        Builder bl;
        // subroutines first (addresses needed by calls)
        {
            std::vector<const Step*> subs;
            for (auto& s : plan.steps)
                if (s.op == "sub")
                    subs.push_back(&s);
            u32 at = P_SUBS;
            for (std::size_t i = 0; i < subs.size() && i < 4; ++i) {
                bl.sub_addr.push_back(at);
                at += 0x20;
            }
            for (std::size_t i = 0; i < bl.sub_addr.size(); ++i) {
                bl.a.org(bl.sub_addr[i]);
                bl.simple(subs[i]->arg(0), subs[i]->arg(1), subs[i]->arg(2));
                if ((subs[i]->arg(3) & 1) && i + 1 < bl.sub_addr.size())
                    bl.a.call(bl.sub_addr[i + 1]); // nested call
                bl.simple(subs[i]->arg(1), subs[i]->arg(2), subs[i]->arg(0));
                if (subs[i]->arg(3) & 2) {
                    bl.a.w(op::PUSH_R0);
                    bl.a.w(op::POP_R0);
                }
                bl.a.w(op::RET);
            }
        }
        // handler
        u32 hentry = line < 3 ? 0x0006 + 8 * (u32)line : 0x0080;
        m.hvec = hentry;
        u32 hbody = HANDLERS + 0x20;
        if (line < 3) {
            bl.a.org(hentry).br(hbody);
        } else {
            hbody = hentry;
        }
        bl.a.org(hbody);
        auto clobber_banked = [&]() {
            bl.a.w2(0x8CC0, clob); // cmp imm, a0: flags only
            bl.a.w(MODR_R0);        // fr := (r0 == 0)
            if (!ccnta) {
                bl.a.mov_imm(op::A1, clob);
                bl.a.w(op::INC_A1);
                bl.a.mov_imm_b1((u16)~clob);
            }
            if (!crep)
                bl.a.mov_imm_repc((u16)(clob ^ 0x5555));
            bl.a.w2(0x8CC0, (u16)(clob + 1));
        };
        // return from interrupt, either unconditional or as a conditional return followed by the complementary one: exactly one
        // of the two fires, whichever way the handler's own flags fall (the conditions are evaluated on the HANDLER's flags)
        int rc = (int)plan.knob("retcond", 0);
        auto ret_from_interrupt = [&](u16 base) {
            static const u16 pairs[3][2] = {{1, 2}, {3, 6}, {4, 5}}; // eq/neq, gt/le, ge/lt
            if (rc < 2) {
                bl.a.w(base);
            } else {
                const u16* pr = pairs[(rc - 2) / 2];
                bl.a.w((u16)(base | pr[rc & 1]));
                bl.a.w((u16)(base | pr[(rc & 1) ^ 1]));
            }
        };
        if (variant == 0) {
            clobber_banked();
            ret_from_interrupt(op::RETIC);
        } else if (variant == 1) {
            bl.a.w(op::CNTX_S);
            clobber_banked();
            bl.a.w(op::CNTX_R);
            ret_from_interrupt(op::RETI);
        } else {
            bl.a.w(op::PUSH_STT0).w(op::PUSH_STT1).w(op::PUSH_R0).w(op::PUSH_R1).w(op::PUSH_A0E).w(op::PUSHA_A0);
            bl.a.mov_imm(op::R0, (u16)(clob & 1));
            bl.a.w(MODR_R0); // clobbers fr (saved in stt1)
            bl.a.mov_imm(op::A0, clob);
            bl.a.w(op::INC_A0);
            bl.a.store_imm(MMIO + 0x202, 0xFFFF); // acknowledge; clobbers r0, r1
            bl.a.w(op::DEC_A0);
            bl.a.w(op::POPA_A0).w(op::POP_A0E).w(op::POP_R1).w(op::POP_R0).w(op::POP_STT1).w(op::POP_STT0);
            ret_from_interrupt(op::RETI);
        }
        // main
        bl.a.org(0).br(P_MAIN);
        bl.a.org(P_MAIN);
        bl.a.mov_imm(op::SP, (u16)STACK_TOP);
        bl.a.mov_imm_sttmod(op::MOD0, 0x0003); // saturation disabled, as the property requires
        bl.a.mov_imm_sttmod(op::MOD1, (u16)(0x2000 | (plan.knob("stp16", 0) ? 0x1000 : 0))); // cmd as after reset; stp16 by knob
        u16 mod3 = (u16)(0x80 | (line < 3 ? (0x100 << line) : 0x800) | (ccnta ? 1 << 13 : 0) | (cpc ? 1 << 14 : 0) | (crep ? 1 << 15 : 0));
        if (variant == 0 && line < 3)
            mod3 |= (u16)(2 << line);
        bl.a.mov_imm_sttmod(op::MOD3, mod3);
        int count = 0;
        for (auto& s : plan.steps) {
            if (s.op != "p")
                continue;
            if (bl.a.at > 0x0700 || ++count > 80)
                break;
            bl.gadget(s);
        }
        m.end_addr = bl.a.at;
        m.ident = bl.ident;
        bl.a.idle();
        b.load(bl.a.words);
        {
            // data registers start from arbitrary values within hardware widths: whole 40-bit accumulators (guard bits
            // in use), factors, products, general registers, shift value
            Rng g((u64)plan.knob("regseed", 0) * 2654435761u + 99);
            auto& r = b.regs();
            auto acc = [&]() -> u64 {
                u64 v = g.next() & 0xFFFFFFFFFFull;
                if (g.chance(1, 3))
                    v = g.next() & 0xFFFFFFFFull;
                if (v & 0x8000000000ull)
                    v |= 0xFFFFFF0000000000ull;
                return v;
            };
            r.a[0] = acc();
            r.a[1] = acc();
            r.b[0] = acc();
            r.b[1] = acc();
            for (auto& v : r.x)
                v = (u16)g.next();
            for (auto& v : r.y)
                v = (u16)g.next();
            for (auto& v : r.p)
                v = (u32)g.next();
            for (int i = 0; i < 8; ++i)
                r.r[i] = (u16)g.next();
            r.sv = (u16)g.next();
            r.mixp = (u16)g.next();
            r.repc = (u16)(g.next() & 0xFF);
            // step / modulo configuration and the exchange banks of banke (no gadget steps an address register by them)
            r.stepi = (u16)(g.next() & 0x7F);
            r.stepj = (u16)(g.next() & 0x7F);
            r.stepib = (u16)(g.next() & 0x7F);
            r.stepjb = (u16)(g.next() & 0x7F);
            r.modi = (u16)(g.next() & 0x1FF);
            r.modj = (u16)(g.next() & 0x1FF);
            r.modib = (u16)(g.next() & 0x1FF);
            r.modjb = (u16)(g.next() & 0x1FF);
            r.stepi0 = (u16)g.next();
            r.stepj0 = (u16)g.next();
            r.stepi0b = (u16)g.next();
            r.stepj0b = (u16)g.next();
            r.r0b = (u16)g.next();
            r.r1b = (u16)g.next();
            r.r4b = (u16)g.next();
            r.r7b = (u16)g.next();
        }
        // ICU: software irq 5 routed to the chosen line
        auto& t = *b.t;
        for (u16 o = 0x206; o <= 0x20C; o += 2)
            t.MMIOWrite(o, 0);
        if (line < 3)
            t.MMIOWrite((u16)(0x206 + 2 * line), 1 << 5);
        else
            t.MMIOWrite(0x20C, 1 << 5);
        for (u16 i = 0; i < 16; ++i) {
            t.MMIOWrite((u16)(0x212 + i * 4), (u16)((variant == 0 ? 0x8000 : 0)));
            t.MMIOWrite((u16)(0x214 + i * 4), 0x0080);
        }
    }

    static bool excluded(const std::string& n) {
        if (n == "a1s" || n == "b1s" || n == "repcs")
            return true;
        if (n.rfind("shadow.f", 0) == 0) // flag shadows are one-way save slots
            return true;
        return false;
    }

    Outcome execute(const Plan& plan) override {
        Outcome out;
        Hasher log;
        Machine A, B;
        setup(plan, A);
        setup(plan, B);
        const ObsNames& names = reg_names(true);
        // ---- reference: P alone, one instruction at a time
        std::vector<ObsValues> ref;
        std::vector<std::vector<u16>> ref_stack;
        std::string dead;
        const u64 cap = 6000;
        auto in_main = [&](u32 pc) { return pc >= P_MAIN || pc < 0x0006; };
        auto snap_stack = [&](Box& b, std::vector<u16>& v) {
            u16 sp = b.regs().sp;
            v.clear();
            if (sp >= STACK_LOW && sp <= STACK_TOP)
                for (u32 a = sp; a < STACK_TOP; ++a)
                    v.push_back(b.peek_data(a));
        };
        std::map<u32, u32> ident_end;
        for (auto& pr : B.ident)
            ident_end[pr.first] = pr.second;
        long ident_open = -1; // index into ref of the state at the start of the round trip being executed
        u32 ident_until = 0;
        for (u64 k = 0; k < cap; ++k) {
            ObsValues v;
            observe_regs(B.b.regs(), v, true);
            {
                u32 pc = B.b.regs().pc;
                if (ident_open >= 0 && pc == ident_until) {
                    const ObsValues& was = ref[(std::size_t)ident_open];
                    out.probes["round_trips_judged"]++;
                    for (std::size_t i = 0; i < v.size() && out.ok(); ++i) {
                        if (v[i] == was[i] || excluded(names[i]) || names[i] == "pc")
                            continue;
                        u16 w0 = B.b.peek_prog(ident_until - 2), w1 = B.b.peek_prog(ident_until - 1);
                        out.violate(names[i].rfind("shadow.", 0) == 0 ? "C08.bank" : "C08.round-trip",
                                    fmt("after the round trip 0x%04x 0x%04x at pc 0x%x: %s = 0x%llx, before it 0x%llx (stp16 %lld)", w0, w1,
                                        ident_until - 2, names[i].c_str(), (unsigned long long)v[i], (unsigned long long)was[i],
                                        (long long)plan.knob("stp16", 0)));
                    }
                    ident_open = -1;
                }
                auto it = ident_end.find(pc);
                if (it != ident_end.end() && ident_open < 0) {
                    ident_open = (long)ref.size();
                    ident_until = it->second;
                }
            }
            if (!out.ok())
                break;
            ref.push_back(std::move(v));
            std::vector<u16> st;
            snap_stack(B.b, st);
            ref_stack.push_back(std::move(st));
            if (B.b.regs().pc == B.end_addr)
                break;
            dead = B.b.run(1);
            if (!dead.empty())
                break;
        }
        if (!out.ok()) {
            out.hash = log.h;
            return out;
        }
        if (!dead.empty() || ref.size() >= cap) {
            out.aborted = !dead.empty();
            out.abort_site = dead;
            out.hash = log.h;
            return out; // P itself does not terminate normally: nothing to compare
        }
        u64 nB = ref.size() - 1; // main steps executed by B
        out.sim_cycles += nB;
        // ---- injections at main step indices
        std::vector<u64> inj;
        for (auto& s : plan.steps)
            if (s.op == "inj")
                inj.push_back(nB ? ((u64)s.arg(0) * nB / 1000) % (nB + 1) : 0);
        std::sort(inj.begin(), inj.end());
        out.faults_configured["irq-inject"] += inj.size();
        // ---- A: P with injections
        u64 k = 0, entries = 0, expected_entries = 0, compares = 0;
        std::size_t next_inj = 0;
        bool in_handler = false, pending = false, live_ctx = false;
        Hasher ctxsig;
        for (u64 guard = 0; guard < cap * 3 && out.ok(); ++guard) {
            u32 pc = A.b.regs().pc;
            if (in_main(pc) && !(pc == A.hvec)) {
                if (in_handler) {
                    in_handler = false;
                }
                // about to execute main step k: must look exactly like the undisturbed run
                if (k >= ref.size()) {
                    out.violate("C08.irq-not-transparent", fmt("interrupted program executes more main-program steps (%llu) than the undisturbed run (%llu)",
                                                               (unsigned long long)k, (unsigned long long)nB));
                    break;
                }
                ObsValues v;
                observe_regs(A.b.regs(), v, true);
                ++compares;
                for (std::size_t i = 0; i < v.size(); ++i) {
                    if (v[i] == ref[k][i] || excluded(names[i]))
                        continue;
                    if (pending && (names[i] == "ip[0]" || names[i] == "ip[1]" || names[i] == "ip[2]" || names[i] == "ipv"))
                        continue; // a request that is latched but not yet taken is visible in ip
                    const char* cls = names[i] == "sp" ? "C08.sp" : names[i] == "pc" ? "C08.resume-pc" : names[i] == "ie" ? "C08.ie-after-reti"
                                      : names[i].rfind("shadow.", 0) == 0                                                    ? "C08.bank"
                                                                                                                             : "C08.irq-not-transparent";
                    out.violate(cls, fmt("before main step %llu (pc 0x%x) after %llu handler entries: %s = 0x%llx, undisturbed run 0x%llx "
                                         "(variant %lld line %lld cpc %lld ccnta %lld crep %lld)",
                                         (unsigned long long)k, pc, (unsigned long long)entries, names[i].c_str(), (unsigned long long)v[i],
                                         (unsigned long long)ref[k][i], (long long)plan.knob("variant"), (long long)plan.knob("line"),
                                         (long long)plan.knob("cpc"), (long long)plan.knob("ccnta"), (long long)plan.knob("crep")));
                    break;
                }
                if (!out.ok())
                    break;
                std::vector<u16> st;
                snap_stack(A.b, st);
                if (st != ref_stack[k]) {
                    out.violate("C08.irq-not-transparent", fmt("before main step %llu (pc 0x%x): live stack differs from the undisturbed run",
                                                               (unsigned long long)k, pc));
                    break;
                }
                log.add(pc);
                if (pc == A.end_addr && next_inj >= inj.size() && !pending)
                    break;
                // inject here?
                while (next_inj < inj.size() && inj[next_inj] <= k) {
                    if (!pending) {
                        A.b.t->MMIOWrite(0x204, 1 << 5);
                        pending = true;
                        ++expected_entries;
                        out.faults_fired["irq-inject"]++;
                        auto& r = A.b.regs();
                        bool live = r.sp != STACK_TOP || r.lp || r.rep || r.a[1] != 0 || r.b[1] != 0;
                        if (live)
                            live_ctx = true;
                        ctxsig.add((u64)(r.sp != STACK_TOP) | (u64)(r.lp != 0) << 1 | (u64)r.rep << 2);
                        if (r.rep)
                            out.probes["inject_inside_rep"]++;
                        if (r.lp)
                            out.probes["inject_inside_block_repeat"]++;
                        if (r.sp != STACK_TOP)
                            out.probes["inject_with_live_stack"]++;
                    }
                    ++next_inj;
                }
                if (pc == A.end_addr && !pending)
                    break;
                if (pc != A.end_addr)
                    ++k;
            }
            dead = A.b.run(1);
            out.sim_cycles++;
            if (!dead.empty()) {
                out.violate("C08.irq-not-transparent", "interrupted program aborted at " + dead + " where the undisturbed run completed");
                break;
            }
            u32 npc = A.b.regs().pc;
            if (npc == A.hvec && !in_handler) {
                in_handler = true;
                pending = false;
                ++entries;
                out.probes[fmt("entry_variant%lld", (long long)plan.knob("variant"))]++;
            }
            if (pc == A.end_addr && npc == A.end_addr && !pending && next_inj >= inj.size())
                break;
        }
        if (out.ok() && entries != expected_entries)
            out.violate("C08.entry-count", fmt("%llu interrupt requests were injected one at a time, the handler was entered %llu times",
                                               (unsigned long long)expected_entries, (unsigned long long)entries));
        // ---- final memory: all data memory except dead stack words below sp
        if (out.ok()) {
            u16 sp = A.b.regs().sp;
            for (u32 w = 0x20000; w < 0x40000; ++w) {
                u32 a = w - 0x20000;
                if (a >= STACK_LOW && a < sp)
                    continue;
                if (A.b.peek_prog(w) != B.b.peek_prog(w)) {
                    out.violate("C08.irq-not-transparent", fmt("data word 0x%x = 0x%04x after the interrupted run, 0x%04x after the undisturbed run",
                                                               a, A.b.peek_prog(w), B.b.peek_prog(w)));
                    break;
                }
            }
        }
        // ---- D: the same requests with the machine running in long slices between them (A single-steps, so anything refreshed
        // at the top of every Run call would hide there); judged at the end against the undisturbed run
        if (out.ok() && !inj.empty()) {
            Machine D;
            setup(plan, D);
            u64 at = 0;
            dead.clear();
            for (u64 c : inj) {
                if (c > at && dead.empty()) {
                    dead = D.b.run(c - at);
                    out.sim_cycles += c - at;
                    at = c;
                }
                if (!dead.empty())
                    break;
                D.b.t->MMIOWrite(0x204, 1 << 5);
            }
            u64 rest = (nB > at ? nB - at : 0) + inj.size() * 120 + 32;
            if (dead.empty()) {
                dead = D.b.run(rest);
                out.sim_cycles += rest;
            }
            if (!dead.empty()) {
                out.violate("C08.irq-not-transparent", "interrupted program run in long slices aborted at " + dead + " where the undisturbed run completed");
            } else if (D.b.regs().pc == D.end_addr) {
                ObsValues vd;
                observe_regs(D.b.regs(), vd, true);
                const ObsValues& vb = ref.back();
                out.probes["long_slice_runs_judged"]++;
                for (std::size_t i = 0; i < vd.size() && out.ok(); ++i) {
                    if (vd[i] == vb[i] || excluded(names[i]))
                        continue;
                    const char* cls = names[i] == "sp" ? "C08.sp" : names[i] == "ie" ? "C08.ie-after-reti" : names[i].rfind("shadow.", 0) == 0 ? "C08.bank"
                                                                                                                                               : "C08.irq-not-transparent";
                    out.violate(cls, fmt("after the interrupted program was run in long slices (%zu requests, first at cycle %llu): %s = 0x%llx, undisturbed "
                                         "run 0x%llx (variant %lld line %lld)", inj.size(), (unsigned long long)inj[0], names[i].c_str(),
                                         (unsigned long long)vd[i], (unsigned long long)vb[i], (long long)plan.knob("variant"), (long long)plan.knob("line")));
                }
                u16 sp = D.b.regs().sp;
                for (u32 w = 0x20000; w < 0x40000 && out.ok(); ++w) {
                    u32 a = w - 0x20000;
                    if (a >= STACK_LOW && a < sp)
                        continue;
                    if (D.b.peek_prog(w) != B.b.peek_prog(w))
                        out.violate("C08.irq-not-transparent", fmt("data word 0x%x = 0x%04x after the long-slice interrupted run, 0x%04x after the undisturbed run",
                                                                   a, D.b.peek_prog(w), B.b.peek_prog(w)));
                }
            }
        }
        out.nontrivial = entries > 0 && compares > 0 && live_ctx;
        Hasher sg;
        sg.add((u64)plan.knob("variant"));
        sg.add((u64)plan.knob("line"));
        sg.add((u64)(plan.knob("cpc") | plan.knob("ccnta") << 1 | plan.knob("crep") << 2));
        sg.add(ctxsig.h);
        out.state_sigs.insert(sg.h);
        out.sig = sg.h;
        out.hash = log.h;
        return out;
    }
};

Registrar reg(new C08);

} // namespace
} // namespace sim
