// C17 — behaviour depends only on the call history; Reset equals a fresh machine.
// mode 1 (heap-poison fault): two instances constructed under different heap fill patterns (after a
//   seed-chosen churn of earlier allocations / an earlier destroyed instance) are driven by the same
//   history WITHOUT a Reset first; every observation must agree.
// mode 2 (reset fault): A runs history H1, Reset(), H2; B is fresh, Reset(), H2 with the same callbacks;
//   every observation of modelled state during H2 must agree.
#include "../core/box.h"
#include "../core/heap.h"
#include "../core/hostops.h"

namespace sim {
namespace {

struct Obs {
    ObsValues v;
    std::vector<u16> mmio_off; // offset of each MMIO observation (for naming)
    std::size_t reg_count = 0;
};

void observe(Box& b, Obs& o, bool masked) {
    observe_regs(b.regs(), o.v, true);
    o.reg_count = o.v.size();
    u16 chan = b.t->MMIORead(0x1BE);
    if (masked) {
        for (auto& f : mmio_fields()) {
            if (f.off >= 0x1C0 && f.off <= 0x1DE && chan >= 8)
                continue;
            o.mmio_off.push_back(f.off);
            o.v.push_back(b.t->MMIORead(f.off) & f.modelled_mask);
        }
    } else {
        for (u16 off = 0; off < 0x800; ++off) {
            if (off == 0x0C2 || off == 0x0C6 || off == 0x0CA)
                continue;
            if (off >= 0x1C0 && off <= 0x1DE && chan >= 8)
                continue;
            o.mmio_off.push_back(off);
            o.v.push_back(b.t->MMIORead(off));
        }
    }
    b.observe_apbp(o.v);
}

std::string obs_name(const Obs& o, std::size_t i) {
    const ObsNames& rn = reg_names(true);
    if (i < o.reg_count)
        return i < rn.size() ? rn[i] : "reg?";
    i -= o.reg_count;
    if (i < o.mmio_off.size())
        return fmt("MMIO[0x%03x]", o.mmio_off[i]);
    i -= o.mmio_off.size();
    const char* ap[] = {"SendDataIsEmpty", "RecvDataIsReady", "PeekRecvData"};
    if (i < 9)
        return fmt("%s(%zu)", ap[i % 3], i / 3);
    return "GetSemaphore";
}

class C17 : public Scenario {
public:
    const char* prop() const override {
        return "C17";
    }
    const char* components_real() const override {
        return "whole teakra library through include/teakra/teakra.h incl. constructors, destructors and Reset()";
    }
    const char* components_stub() const override {
        return "host CPU (plan steps), audio sink, host interrupt log, external memory; global operator new/delete (fill pattern)";
    }
    const char* nontrivial_rule() const override {
        return "non-trivial if (mode 2) the pre-reset history left at least one observable different from its reset value just "
               "before Reset() and at least one post-reset comparison was made, or (mode 1) both instances were constructed under "
               "different fill bytes and at least one comparison was made; distinct = distinct (plan shape hash, final signature)";
    }
    std::pair<int, int> pool_need() const override {
        return {2, 2};
    }
    std::vector<std::pair<std::string, s64>> simplest_knobs() const override {
        return {{"ghost", 0}, {"churn", 0}, {"user_mem", 0}, {"reenter", 0}, {"bt_en", 0}, {"bt_words", 0}, {"h0act", 0},
                {"h1act", 0}, {"h2act", 0}, {"h3act", 0}, {"t1cfg", 0}, {"t1start", 0}, {"env", 0}, {"en1", 0}, {"en2", 0}};
    }

    Plan generate(u64 seed, const Tier& tier) override {
        Rng r(seed);
        Plan p;
        int mode = r.chance(tier.thorough ? 1 : 1, tier.thorough ? 4 : 8) ? 1 : 2;
        p.set_knob("mode", mode);
        p.set_knob("poison1", (s64)r.pick(std::vector<int>{0x00, 0xFF, 0xA5, 0x5A, 0x01, 0x80, 0x7F, 0xCD}));
        p.set_knob("poison2", (s64)r.pick(std::vector<int>{0xFF, 0x00, 0x5A, 0xA5, 0xFE, 0x11, 0xEE, 0x33}));
        p.set_knob("churn", (s64)r.below(40));
        p.set_knob("ghost", (s64)r.chance(1, 5));
        p.set_knob("user_mem", (s64)r.chance(1, 6));
        p.set_knob("reenter", (s64)r.below(3));
        gen_fw_knobs(r, p);
        if (mode == 1) {
            int n = (int)r.range(1, 14);
            for (int i = 0; i < n; ++i)
                gen_host_op(r, p, true, 600);
            if (r.chance(1, 2)) {
                p.add("fw");
                p.add("run", {(s64)r.range(10, 800)});
            }
        } else {
            int n1 = (int)r.range(1, 22);
            if (r.chance(1, 8)) {
                // a quiet history: nothing before the Reset makes the emulator itself store into DSP memory; the host only writes
                // through the raw pointer it kept, pokes registers and mailboxes (optionally after an earlier Reset)
                n1 = 0;
                if (r.chance(1, 3))
                    p.add("reset");
                int q = (int)r.range(1, 5);
                for (int i = 0; i < q; ++i) {
                    switch (r.below(4)) {
                    case 0:
                    case 1:
                        p.add("raww", {(s64)(r.chance(1, 2) ? r.below(0x4000) : 0x20000 + r.below(0x8000)), (s64)(1 + (r.next() & 0xFFFE))});
                        break;
                    case 2:
                        p.add("send", {(s64)r.below(3), (s64)(r.next() & 0xFFFF)});
                        break;
                    default:
                        p.add("trig", {(s64)(1u << (9 + r.below(7)))});
                        break;
                    }
                }
            } else if (r.chance(3, 4)) {
                p.add("fw");
                p.add("run", {(s64)r.range(0, 600)});
            }
            for (int i = 0; i < n1; ++i)
                gen_host_op(r, p, true, 600);
            // bias: leave something in flight right before the Reset
            switch (r.below(10)) {
            case 0:
                p.add("trig", {(s64)(1u << (9 + r.below(7)))});
                break;
            case 1:
                p.add("send", {(s64)r.below(3), (s64)(r.next() & 0xFFFF)});
                break;
            case 2:
                p.add("mmiow", {0x0D4, (s64)(r.next() & 0x3100)});
                break;
            case 3:
                p.add("mmiow", {0x1BE, (s64)r.range(1, 7)});
                break;
            case 4:
                p.add("mmiow", {(s64)(0x206 + 2 * r.below(4)), (s64)(r.next() & 0xFFFF)});
                break;
            case 5:
                p.add("mmiow", {(s64)(0x212 + 4 * r.below(16) + 2 * r.below(2)), (s64)(r.next() & 0x83FF)});
                break;
            default:
                break;
            }
            p.add("reset");
            if (r.chance(3, 4)) {
                p.add("fw");
                p.add("run", {(s64)r.range(1, 600)});
            }
            int n2 = (int)r.range(0, 12);
            for (int i = 0; i < n2; ++i)
                gen_host_op(r, p, true, 600);
        }
        return p;
    }

    Outcome execute(const Plan& plan) override {
        Outcome out;
        Hasher log;
        int mode = (int)plan.knob("mode", 2);
        bool user_mem = plan.knob("user_mem", 0) != 0;
        std::unique_ptr<Box> A, B;
        if (mode == 1) {
            HeapPoison& hp = heap_poison();
            hp.on = true;
            hp.fill = (u8)plan.knob("poison1", 0xA5);
            {
                // churn: allocation history before the instance exists
                Rng cr((u64)plan.knob("churn", 0) * 7919 + 13);
                std::vector<std::unique_ptr<std::vector<u8>>> junk;
                for (s64 i = 0; i < plan.knob("churn", 0); ++i) {
                    junk.push_back(std::make_unique<std::vector<u8>>((std::size_t)cr.range(8, 70000), (u8)cr.below(256)));
                    if (cr.chance(1, 2))
                        junk.erase(junk.begin() + (long)cr.below(junk.size()));
                }
                if (plan.knob("ghost", 0)) {
                    // an earlier instance, used and destroyed
                    auto ghost = std::make_unique<Box>(false, -1);
                    ghost->install_callbacks();
                    ghost->t->MMIOWrite(0x206, 0xFFFF);
                    ghost->t->MMIOWrite(0x204, 0xFFFF);
                    ghost->t->SendData(0, 0x1234);
                    ghost->run(50);
                    out.probes["ghost_instance"]++;
                }
            }
            A = std::make_unique<Box>(user_mem, 0);
            hp.fill = (u8)plan.knob("poison2", 0x5A);
            B = std::make_unique<Box>(user_mem, 0);
            hp.on = false;
            out.faults_configured["heap-poison"]++;
            if (plan.knob("poison1") != plan.knob("poison2"))
                out.faults_fired["heap-poison"]++;
        } else {
            A = BoxPool::take(user_mem);
            B = BoxPool::take(user_mem);
        }
        A->reenter_mode = B->reenter_mode = (int)plan.knob("reenter", 0);
        A->install_callbacks();
        B->install_callbacks();
        FwConfig fa, fb;
        u64 comparisons = 0;
        bool dirty_before_reset = false;

        auto compare = [&](std::size_t si, const char* cls, bool masked) {
            Obs oa, ob;
            observe(*A, oa, masked);
            observe(*B, ob, masked);
            ++comparisons;
            for (u64 v : oa.v)
                log.add(v);
            long d = first_diff(oa.v, ob.v);
            if (d >= 0) {
                out.violate(cls, fmt("step %zu (%s): %s = 0x%llx in A, 0x%llx in B", si,
                                     si < plan.steps.size() ? plan.steps[si].op.c_str() : "end", obs_name(oa, (std::size_t)d).c_str(),
                                     (unsigned long long)oa.v[(std::size_t)d], (unsigned long long)ob.v[(std::size_t)d]));
                return;
            }
            long md = first_mem_diff(*A, *B);
            if (md >= 0) {
                out.violate(cls, fmt("step %zu: memory word 0x%lx = 0x%04x in A, 0x%04x in B", si, md, A->peek_prog((u32)md),
                                     B->peek_prog((u32)md)));
                return;
            }
            if (A->events.size() != B->events.size()) {
                out.violate(cls, fmt("step %zu: %zu callback events in A, %zu in B", si, A->events.size(), B->events.size()));
                return;
            }
            for (std::size_t i = 0; i < A->events.size(); ++i)
                if (!(A->events[i] == B->events[i])) {
                    out.violate(cls, fmt("step %zu: callback event %zu is %s in A, %s in B", si, i, A->events[i].str().c_str(),
                                         B->events[i].str().c_str()));
                    return;
                }
        };

        // index of the last reset step (mode 2)
        long reset_at = -1;
        if (mode == 2)
            for (std::size_t i = 0; i < plan.steps.size(); ++i)
                if (plan.steps[i].op == "reset")
                    reset_at = (long)i;
        if (mode == 2 && reset_at < 0) {
            out.hash = log.h;
            return out; // nothing to judge
        }
        if (mode == 1)
            compare(0, "C17.heap-dependent", false);
        for (std::size_t si = 0; si < plan.steps.size() && out.ok(); ++si) {
            const Step& s = plan.steps[si];
            if (mode == 2 && (long)si < reset_at) {
                if (s.op == "reset") {
                    A->reset();
                    continue;
                }
                std::string ab;
                apply_host_op(*A, fa, plan, s, ab);
                if (s.op == "run")
                    out.sim_cycles += (u64)s.arg(0);
                if (!ab.empty()) {
                    out.aborted = true;
                    out.abort_site = ab;
                    break;
                }
                continue;
            }
            if (s.op == "reset") {
                // is there anything for Reset to undo?
                Obs before, fresh;
                observe(*A, before, true);
                observe(*B, fresh, true);
                dirty_before_reset = first_diff(before.v, fresh.v) >= 0 || first_mem_diff(*A, *B) >= 0;
                out.faults_configured["reset"]++;
                if (dirty_before_reset)
                    out.faults_fired["reset"]++;
                if (A->regs().ie == 0 && (A->t->MMIORead(0x200) != 0))
                    out.probes["reset_with_pending_request"]++;
                if (A->t->MMIORead(0x1BE) != 0)
                    out.probes["reset_with_dma_channel_selected"]++;
                if (!A->t->SendDataIsEmpty(0) || !A->t->SendDataIsEmpty(1) || !A->t->SendDataIsEmpty(2))
                    out.probes["reset_with_mailbox_pending"]++;
                if (A->t->MMIORead(0x0D4) & 0x3100)
                    out.probes["reset_with_irq_disable_bits"]++;
                A->reset();
                B->reset();
                A->events.clear();
                B->events.clear();
                A->ext = ExtMem{};
                B->ext = ExtMem{};
                Hasher sg;
                sg.add(before.v[0] != 0);
                sg.add(A->t->MMIORead(0x200));
                out.state_sigs.insert(sg.h);
                compare(si, "C17.reset-ne-fresh", true);
                continue;
            }
            std::string aa, ab;
            u64 ra = apply_host_op(*A, fa, plan, s, aa);
            u64 rb = apply_host_op(*B, fb, plan, s, ab);
            if (s.op == "run")
                out.sim_cycles += 2 * (u64)s.arg(0);
            const char* cls = mode == 1 ? "C17.heap-dependent" : "C17.reset-ne-fresh";
            if (aa != ab) {
                out.violate(cls, fmt("step %zu (%s): A %s, B %s", si, s.op.c_str(), aa.empty() ? "completed" : ("aborted at " + aa).c_str(),
                                     ab.empty() ? "completed" : ("aborted at " + ab).c_str()));
                break;
            }
            if (!aa.empty()) {
                out.aborted = true;
                out.abort_site = aa;
                break;
            }
            if (ra != rb) {
                out.violate(cls, fmt("step %zu (%s %lld): returned 0x%llx in A, 0x%llx in B", si, s.op.c_str(), (long long)s.arg(0),
                                     (unsigned long long)ra, (unsigned long long)rb));
                break;
            }
            compare(si, cls, mode == 2);
        }
        out.nontrivial = comparisons > 0 && (mode == 1 ? plan.knob("poison1") != plan.knob("poison2") : dirty_before_reset);
        Hasher sg;
        sg.add((u64)mode);
        sg.add(A->regs().a[1] & 7);
        sg.add(A->events.size() > 4 ? 4 : A->events.size());
        sg.add(out.aborted);
        out.sig = sg.h;
        out.hash = log.h;
        return out;
    }
};

Registrar reg(new C17);

} // namespace
} // namespace sim
