// C09 — hardware loops execute their body exactly count+1 times.
// A loop tree (rep / bkrep nested up to four deep, counts by immediate or register - r1, r6 or the live loop counter lc -, bodies that bump
// weighted counters, optional break, two-word last instructions) is run
//   B: alone, one instruction at a time            -> arithmetic oracle (independent of the interpreter)
//   A: with interrupts injected at arbitrary steps -> twin of B at every main step; the handler itself
//      uses a block repeat and saves/restores the interrupted frame (bkrepsto/bkreprst [sp])
//   C: alone, in random slices (also inside a rep) -> final state equals B
//   U: the unrolled program                        -> same registers and memory as B
#include "../core/box.h"
#include "../guest/firmware.h"

namespace sim {
namespace {

constexpr u32 P_MAIN = 0x0100, STACK_TOP = 0x0F00, STACK_LOW = 0x0E00, HBODY = 0x0040;
constexpr u16 HCNT = 0x0B00;

struct Node {
    enum Kind { Loop, Rep, Bump, LcSum, Break } kind = Bump;
    u32 count = 0;   // Loop/Rep
    int src = 0;     // 0 immediate, 1 register r1, 2 register r6, 3 register lc (the enclosing loop's live counter)
    int bump = 0;    // Bump/Rep: 0 inc a0, 1 inc a1, 2 add imm8 a0, 3 add imm16 a0, 4 add imm16 a1
    u16 w = 1;       // weight for bump kinds 2..4
    std::vector<Node> body; // Loop
};

u32 pick_count(s64 x, bool allow_big) {
    static const u32 big[] = {255, 256, 65535, 1000};
    if (allow_big && (x & 0x700) == 0x700)
        return big[(x >> 11) & 3];
    return (u32)(x % 18);
}

// parse the plan's pre-order steps into a tree; enforces the shape rules that keep the program inside
// the property's class (every block ends with a plain bump; depth <= max_depth)
struct Parser {
    const std::vector<Step>& steps;
    std::size_t i = 0;
    int max_depth;
    bool big_used = false;
    void parse_body(std::vector<Node>& out, int depth) {
        while (i < steps.size()) {
            const Step& s = steps[i];
            if (s.op == "end") {
                ++i;
                if (depth > 0)
                    return;
                continue;
            }
            if (s.op == "loop") {
                ++i;
                if (depth >= max_depth) {
                    continue; // too deep: the loop header is ignored, its body merges into the parent
                }
                Node n;
                n.kind = Node::Loop;
                bool allow_big = depth == 0 && !big_used;
                n.count = pick_count(s.arg(0), allow_big);
                if (n.count > 20)
                    big_used = true;
                n.src = (int)(s.arg(1) % 4);
                if (n.src == 3 && depth == 0)
                    n.src = 0; // no enclosing loop whose counter could be read
                // a body of a big loop stays tiny
                int save_max = max_depth;
                if (n.count > 20)
                    max_depth = depth + 1;
                parse_body(n.body, depth + 1);
                max_depth = save_max;
                if (n.count > 20) {
                    // keep only bumps in a big loop
                    std::vector<Node> small;
                    for (auto& c : n.body)
                        if (c.kind == Node::Bump && small.size() < 2)
                            small.push_back(c);
                    n.body = small;
                }
                // the loop counter is only read in blocks without a break (after a break it shows an outer frame)
                {
                    bool broken = false;
                    for (auto& c : n.body)
                        if (c.kind == Node::Break)
                            broken = true;
                    if (broken) {
                        std::vector<Node> keep;
                        bool seen = false;
                        for (auto& c : n.body) {
                            if (c.kind == Node::LcSum)
                                continue;
                            if ((c.kind == Node::Loop || c.kind == Node::Rep) && c.src == 3)
                                c.src = 0;
                            if (c.kind == Node::Break) {
                                if (seen)
                                    continue; // a second break would run with no loop active (teakra asserts)
                                seen = true;
                            }
                            keep.push_back(c);
                        }
                        n.body = keep;
                    }
                }
                // every block ends with a plain bump (one- or two-word)
                if (n.body.empty() || n.body.back().kind != Node::Bump) {
                    Node b;
                    b.kind = Node::Bump;
                    b.bump = (int)(s.arg(2) % 5);
                    b.w = (u16)(1 + (s.arg(2) >> 3) % 0x3FFF);
                    n.body.push_back(b);
                }
                out.push_back(std::move(n));
            } else if (s.op == "rep") {
                ++i;
                Node n;
                n.kind = Node::Rep;
                n.count = pick_count(s.arg(0), depth == 0 && !big_used);
                if (n.count > 20)
                    big_used = true;
                n.src = (int)(s.arg(1) % 4);
                if (n.src == 3 && depth == 0)
                    n.src = 0;
                n.bump = (int)(s.arg(2) % 3); // one-word instructions only
                n.w = (u16)(1 + (s.arg(2) >> 3) % 255);
                out.push_back(n);
            } else if (s.op == "bump") {
                ++i;
                Node n;
                n.kind = Node::Bump;
                n.bump = (int)(s.arg(0) % 5);
                n.w = (u16)(1 + (s.arg(1) % 0x3FFF));
                out.push_back(n);
            } else if (s.op == "lcsum") {
                ++i;
                Node n;
                n.kind = Node::LcSum;
                if (depth > 0)
                    out.push_back(n);
            } else if (s.op == "break") {
                ++i;
                Node n;
                n.kind = Node::Break;
                if (depth > 0)
                    out.push_back(n);
            } else {
                ++i; // inj / slice steps are not part of the program
            }
        }
    }
};

struct Expect {
    s64 a0 = 0, a1 = 0;
    u64 executed = 0;
};

u16 bump_weight(const Node& n) {
    switch (n.bump) {
    case 0:
    case 1:
        return 1;
    case 2:
        return (u16)(n.w & 0xFF ? n.w & 0xFF : 1);
    default:
        return n.w;
    }
}

// arithmetic oracle: how often each site executes is the product of (count+1) of its enclosing loops
// (1 for a block that contains a break), nothing else.
void expect_body(const std::vector<Node>& body, u64 mult, u32 innermost_count, bool innermost_broken, Expect& e) {
    for (auto& n : body) {
        switch (n.kind) {
        case Node::Bump: {
            s64 add = (s64)bump_weight(n) * (s64)mult;
            if (n.bump == 1 || n.bump == 4)
                e.a1 += add;
            else
                e.a0 += add;
            e.executed += mult;
            break;
        }
        case Node::Rep: {
            // a count taken from lc is the enclosing loop's live counter: count, count-1, ..., 0 over its iterations
            u32 lo = n.src == 3 ? 0 : n.count, hi = n.src == 3 ? innermost_count : n.count;
            u64 m = n.src == 3 ? mult / ((u64)innermost_count + 1) : mult;
            for (u32 cnt = lo; cnt <= hi; ++cnt) {
                u64 times = m * ((u64)cnt + 1);
                s64 add = (s64)(n.bump == 2 ? bump_weight(n) : 1) * (s64)times;
                if (n.bump == 1)
                    e.a1 += add;
                else
                    e.a0 += add;
                e.executed += times + m * ((n.src == 1 || n.src == 2) ? 2 : 1);
            }
            break;
        }
        case Node::LcSum: {
            // the visible counter runs count, count-1, ..., 0 over the iterations of the innermost loop
            u64 outer = innermost_broken ? mult : mult / ((u64)innermost_count + 1);
            u64 sum = innermost_broken ? innermost_count : (u64)innermost_count * ((u64)innermost_count + 1) / 2;
            e.a1 += (s64)(outer * sum);
            e.executed += 2 * mult;
            break;
        }
        case Node::Break:
            e.executed += mult;
            break;
        case Node::Loop: {
            bool broken = false;
            for (auto& c : n.body)
                if (c.kind == Node::Break)
                    broken = true;
            u32 lo = n.src == 3 ? 0 : n.count, hi = n.src == 3 ? innermost_count : n.count;
            u64 m = n.src == 3 ? mult / ((u64)innermost_count + 1) : mult;
            for (u32 cnt = lo; cnt <= hi; ++cnt) {
                u64 iters = broken ? 1 : (u64)cnt + 1;
                e.executed += m * ((n.src == 1 || n.src == 2) ? 2 : 1);
                expect_body(n.body, m * iters, cnt, broken, e);
            }
            break;
        }
        }
    }
}

struct Emit {
    Asm a;
    void bump(const Node& n) {
        switch (n.bump) {
        case 0:
            a.w(op::INC_A0);
            break;
        case 1:
            a.w(op::INC_A1);
            break;
        case 2:
            a.w((u16)(0xC600 | (bump_weight(n) & 0xFF)));
            break;
        case 3:
            a.add_imm_a0(bump_weight(n));
            break;
        default:
            a.add_imm_a1(bump_weight(n));
            break;
        }
    }
    void body(const std::vector<Node>& b, bool unrolled, u64& budget) {
        for (auto& n : b) {
            if (budget == 0)
                return;
            switch (n.kind) {
            case Node::Bump:
                bump(n);
                --budget;
                break;
            case Node::LcSum:
                // inside the unrolled program there is no loop counter to read: the caller substitutes constants
                a.w(0x581E); // mov lc, r0
                a.w(op::ADD_R0_A0 + 0x100); // add r0, a1   (0x87A0)
                break;
            case Node::Break:
                a.w(op::BREAK);
                break;
            case Node::Rep: {
                Node one = n;
                one.kind = Node::Bump;
                if (unrolled) {
                    for (u64 k = 0; k <= n.count && budget; ++k, --budget)
                        bump(one);
                    break;
                }
                if (n.src == 3) {
                    a.w(0x0D1E); // rep lc
                } else if (n.src == 0 && n.count <= 255) {
                    a.rep_imm((u8)n.count);
                } else if (n.src == 2) {
                    a.mov_imm_r6((u16)n.count);
                    a.w(op::REP_R6);
                } else {
                    a.mov_imm(op::R1, (u16)n.count);
                    a.w(0x0D01); // rep r1
                }
                bump(one);
                break;
            }
            case Node::Loop: {
                if (unrolled) {
                    bool broken = false;
                    for (auto& c : n.body)
                        if (c.kind == Node::Break)
                            broken = true;
                    u64 iters = broken ? 1 : (u64)n.count + 1;
                    for (u64 k = 0; k < iters && budget; ++k)
                        body_unrolled_iter(n, iters - 1 - k, budget);
                    break;
                }
                // header
                u32 hdr = a.at;
                (void)hdr;
                Emit tmp;
                tmp.a = Asm();
                tmp.a.org(0);
                u64 big = ~0ull;
                tmp.body(n.body, false, big);
                u32 body_words = tmp.a.at;
                int hdr_words = (n.src == 3 || (n.src == 0 && n.count <= 255)) ? 2 : 4;
                u32 start = a.at + (u32)hdr_words;
                u32 end = start + body_words - 1;
                if (n.src == 3) {
                    a.w2((u16)(0x5D1E | (((end >> 16) & 3) << 5)), (u16)end); // bkrep lc: the count is the enclosing loop's counter
                } else if (n.src == 0 && n.count <= 255) {
                    a.bkrep_imm((u8)n.count, end);
                } else if (n.src == 2) {
                    a.mov_imm_r6((u16)n.count);
                    a.bkrep_r6(end);
                } else {
                    a.mov_imm(op::R1, (u16)n.count);
                    a.w2((u16)(0x5D01 | (((end >> 16) & 3) << 5)), (u16)end);
                }
                body(n.body, false, budget);
                break;
            }
            }
        }
    }
    // one iteration of a loop in the unrolled program; `lc` is the value the loop counter would show
    void body_unrolled_iter(const Node& loop, u64 lc, u64& budget) {
        for (auto& n : loop.body) {
            if (!budget)
                return;
            if (n.kind == Node::LcSum) {
                a.mov_imm(op::R0, (u16)lc);
                a.w(0x87A0);
                continue;
            }
            if (n.kind == Node::Break)
                continue;
            std::vector<Node> one{n};
            if ((n.kind == Node::Loop || n.kind == Node::Rep) && n.src == 3) {
                one[0].src = 0;
                one[0].count = (u32)lc; // the counter value this iteration shows
            }
            body(one, true, budget);
        }
    }
};

class C09 : public Scenario {
public:
    const char* prop() const override {
        return "C09";
    }
    const char* components_real() const override {
        return "Interpreter: rep / bkrep / break / bkrepsto / bkreprst, loop-end test in Run, interrupt entry deferral during rep; "
               "RegisterState loop stack";
    }
    const char* components_stub() const override {
        return "host CPU (software interrupt injection, slicing)";
    }
    const char* nontrivial_rule() const override {
        return "non-trivial if the program contains at least one loop with count >= 1 whose body executed, the arithmetic oracle was "
               "evaluated, and either an interrupt was entered inside a loop or a slice boundary fell inside a loop; distinct = "
               "distinct (plan shape hash, signature of loop-tree shape)";
    }
    std::pair<int, int> pool_need() const override {
        return {5, 0};
    }
    std::vector<std::pair<std::string, s64>> simplest_knobs() const override {
        return {{"hvariant", 0}, {"hcount", 0}};
    }

    Plan generate(u64 seed, const Tier& tier) override {
        Rng r(seed);
        Plan p;
        p.set_knob("hvariant", (s64)r.below(4)); // 0 no loop in handler, 1 loop, 2 bkrepsto + loop + bkreprst, 3 bkrepsto + bkreprst
        p.set_knob("hcount", (s64)r.below(6));
        int n = (int)r.range(2, tier.thorough ? 40 : 22);
        int open = 0;
        for (int i = 0; i < n; ++i) {
            int x = (int)r.below(12);
            if (x < 3 && open < 4) {
                p.add("loop", {(s64)(r.chance(1, 10) ? (0x700 | r.below(4) << 11) : r.below(18)), (s64)r.below(4), (s64)(r.next() & 0xFFFF)});
                ++open;
            } else if (x < 5) {
                p.add("rep", {(s64)r.below(18), (s64)r.below(4), (s64)(r.next() & 0xFFFF)});
            } else if (x < 8) {
                p.add("bump", {(s64)r.below(5), (s64)(r.next() & 0xFFFF)});
            } else if (x < 9 && open > 0) {
                p.add("lcsum", {});
            } else if (x < 10 && open > 0 && r.chance(1, 3)) {
                p.add("break", {});
            } else if (open > 0) {
                p.add("end", {});
                --open;
            } else {
                p.add("bump", {(s64)r.below(5), (s64)(r.next() & 0xFFFF)});
            }
        }
        while (open-- > 0)
            p.add("end", {});
        int k = (int)r.range(0, 3);
        for (int i = 0; i < k; ++i)
            p.add("inj", {(s64)r.below(1000)});
        int ns = (int)r.range(1, 12);
        for (int i = 0; i < ns; ++i)
            p.add("slice", {(s64)r.range(0, r.chance(1, 3) ? 2000 : 40)});
        return p;
    }

    struct Machine {
        std::unique_ptr<Box> boxp;
        Box& b;
        u32 end_addr = 0;
        Machine() : boxp(BoxPool::take(false)), b(*boxp) {}
    };

    static void setup(const Plan& plan, const std::vector<Node>& tree, Machine& m, bool unrolled) {
        Box& b = m.b;
        b.install_callbacks();
        b.reset();
        Emit e;
        int hv = (int)plan.knob("hvariant", 0);
        u8 hcount = (u8)plan.knob("hcount", 0);
        // interrupt line 0 -> handler with manual save of everything it touches
        e.a.org(0x0006).br(HBODY);
        e.a.org(HBODY);
        e.a.w(op::PUSH_STT0).w(op::PUSH_A1E).w(op::PUSHA_A1);
        if (hv >= 2)
            e.a.w(op::BKREPSTO_SP);
        e.a.load_a1_abs(HCNT);
        if (hv == 1 || hv == 2) {
            u32 start = e.a.at + 2;
            e.a.bkrep_imm(hcount, start); // one-instruction block
            e.a.w(op::INC_A1);
        } else {
            e.a.w(op::INC_A1);
        }
        e.a.store_a1l_abs(HCNT);
        if (hv >= 2)
            e.a.w(op::BKREPRST_SP);
        e.a.w(op::POPA_A1).w(op::POP_A1E).w(op::POP_STT0);
        e.a.w(op::RETI);
        e.a.org(0).br(P_MAIN);
        e.a.org(P_MAIN);
        e.a.mov_imm(op::SP, (u16)STACK_TOP);
        e.a.mov_imm_sttmod(op::MOD0, 0x0003);
        e.a.mov_imm_sttmod(op::MOD3, 0x0180 | 1 << 14); // ie, im0, cpc
        u64 budget = 2500;
        e.body(tree, unrolled, budget);
        m.end_addr = e.a.at;
        e.a.idle();
        b.load(e.a.words);
        auto& t = *b.t;
        for (u16 o = 0x206; o <= 0x20C; o += 2)
            t.MMIOWrite(o, 0);
        t.MMIOWrite(0x206, 1 << 5);
    }

    static u64 tree_sig(const std::vector<Node>& b, int depth = 0) {
        Hasher h;
        for (auto& n : b) {
            h.add((u64)n.kind);
            h.add((u64)depth);
            if (n.kind == Node::Loop || n.kind == Node::Rep) {
                h.add(n.count > 3 ? (n.count > 20 ? 5 : 4) : n.count);
                h.add((u64)n.src);
            }
            if (n.kind == Node::Loop)
                h.add(tree_sig(n.body, depth + 1));
        }
        return h.h;
    }
    static int tree_depth(const std::vector<Node>& b) {
        int d = 0;
        for (auto& n : b)
            if (n.kind == Node::Loop)
                d = std::max(d, 1 + tree_depth(n.body));
        return d;
    }

    Outcome execute(const Plan& plan) override {
        Outcome out;
        Hasher log;
        int hv = (int)plan.knob("hvariant", 0);
        // with a looping handler that does not save the frame, the main program may nest three deep at most
        Parser ps{plan.steps, 0, hv == 1 ? 3 : 4, false};
        std::vector<Node> tree;
        ps.parse_body(tree, 0);
        Expect ex;
        expect_body(tree, 1, 0, false, ex);
        if (ex.executed > 140000) {
            out.notes.push_back("program too long; skipped");
            out.hash = log.h;
            return out;
        }
        Machine B;
        setup(plan, tree, B, false);
        const ObsNames& names = reg_names(true);
        // ---------------- B: alone, single-stepped; reference states for A
        std::vector<ObsValues> ref;
        bool keep_ref = ex.executed <= 6000;
        std::string dead;
        u64 nB = 0;
        const u64 cap = 200000;
        for (; nB < cap; ++nB) {
            if (keep_ref) {
                ObsValues v;
                observe_regs(B.b.regs(), v, false);
                ref.push_back(std::move(v));
            }
            if (B.b.regs().pc == B.end_addr)
                break;
            dead = B.b.run(1);
            if (!dead.empty())
                break;
        }
        out.sim_cycles += nB;
        if (!dead.empty()) {
            out.violate("C09.count", "the loop program aborted at " + dead);
            out.hash = log.h;
            return out;
        }
        if (nB >= cap) {
            out.violate("C09.count", "the loop program did not finish within the step bound (a loop ran longer than count+1)");
            out.hash = log.h;
            return out;
        }
        auto& rb = B.b.regs();
        s64 a0 = (s64)rb.a[0] - 0, a1 = (s64)rb.a[1];
        log.add((u64)a0);
        log.add((u64)a1);
        int depth = tree_depth(tree);
        out.probes[fmt("nest_depth_%d", depth)]++;
        if (a0 != ex.a0 || a1 != ex.a1) {
            out.violate("C09.count", fmt("counters after the program: a0=%lld a1=%lld; count+1 executions of every body give a0=%lld a1=%lld "
                                         "(nest depth %d, %llu instructions expected, %llu steps taken)",
                                         (long long)a0, (long long)a1, (long long)ex.a0, (long long)ex.a1, depth,
                                         (unsigned long long)ex.executed, (unsigned long long)nB));
        } else if (rb.lp != 0 || rb.bcn != 0 || rb.rep) {
            out.violate("C09.exit-state", fmt("after all loops finished lp=%d bcn=%d rep=%d (must be clear as before entry)", rb.lp, rb.bcn, (int)rb.rep));
        }
        bool has_loop = false;
        for (auto& n : tree)
            if ((n.kind == Node::Loop || n.kind == Node::Rep) && n.count >= 1)
                has_loop = true;
        bool fault_in_loop = false;

        // ---------------- C: alone, sliced (state of rep / block repeat must survive Run returning)
        if (out.ok()) {
            Machine C;
            setup(plan, tree, C, false);
            u64 done = 0;
            for (auto& s : plan.steps) {
                if (s.op != "slice" || done >= nB + 8)
                    continue;
                u64 n = (u64)s.arg(0);
                out.faults_configured["slice"]++;
                dead = C.b.run(n);
                done += n;
                out.sim_cycles += n;
                if (!dead.empty())
                    break;
                if (C.b.regs().rep || C.b.regs().lp) {
                    out.faults_fired["slice"]++;
                    fault_in_loop = true;
                    if (C.b.regs().rep)
                        out.probes["slice_boundary_inside_rep"]++;
                    else
                        out.probes["slice_boundary_inside_block"]++;
                }
            }
            if (dead.empty() && done < nB + 8)
                dead = C.b.run(nB + 8 - done);
            if (!dead.empty()) {
                out.violate("C09.slice", "sliced run aborted at " + dead);
            } else {
                ObsValues vb, vc;
                // B sits at the idle instruction; let it idle as long as C did so that both executed the same cycles
                B.b.run(8);
                observe_regs(B.b.regs(), vb, false);
                observe_regs(C.b.regs(), vc, false);
                long d = first_diff(vb, vc);
                if (d >= 0)
                    out.violate("C09.slice", fmt("after the sliced run %s = 0x%llx, single-stepped 0x%llx", names[(std::size_t)d].c_str(),
                                                 (unsigned long long)vc[(std::size_t)d], (unsigned long long)vb[(std::size_t)d]));
            }
        }

        // ---------------- U: unrolled program
        if (out.ok() && ex.executed <= 2000) {
            Machine U;
            setup(plan, tree, U, true);
            dead = U.b.run(ex.executed * 2 + 50);
            out.sim_cycles += ex.executed * 2 + 50;
            if (!dead.empty()) {
                out.violate("C09.vs-unrolled", "unrolled program aborted at " + dead);
            } else if (U.b.regs().pc != U.end_addr) {
                out.notes.push_back("unrolled program did not reach its end (harness bound)");
            } else {
                auto& ru = U.b.regs();
                out.probes["unrolled_compared"]++;
                if (ru.a[0] != rb.a[0] || ru.a[1] != rb.a[1] || ru.b[0] != rb.b[0] || ru.b[1] != rb.b[1] || ru.sp != rb.sp ||
                    ru.fz != rb.fz || ru.fm != rb.fm || ru.fc0 != rb.fc0 || ru.fv != rb.fv || ru.fe != rb.fe || ru.repc != rb.repc)
                    out.violate("C09.vs-unrolled", fmt("unrolled code leaves a0=0x%llx a1=0x%llx flags z%d m%d c%d v%d e%d repc=%u; the loops leave "
                                                       "a0=0x%llx a1=0x%llx flags z%d m%d c%d v%d e%d repc=%u",
                                                       (unsigned long long)ru.a[0], (unsigned long long)ru.a[1], ru.fz, ru.fm, ru.fc0, ru.fv, ru.fe,
                                                       ru.repc, (unsigned long long)rb.a[0], (unsigned long long)rb.a[1], rb.fz, rb.fm, rb.fc0, rb.fv,
                                                       rb.fe, rb.repc));
                else {
                    for (u32 w = 0x20000; w < 0x40000; ++w)
                        if (U.b.peek_prog(w) != B.b.peek_prog(w)) {
                            out.violate("C09.vs-unrolled", fmt("data word 0x%x differs between unrolled code and loops", w - 0x20000));
                            break;
                        }
                }
            }
        }

        // ---------------- A: interrupts injected at arbitrary main steps
        if (out.ok()) {
            Machine A;
            setup(plan, tree, A, false);
            std::vector<u64> inj;
            for (auto& s : plan.steps)
                if (s.op == "inj")
                    inj.push_back(nB ? ((u64)s.arg(0) * nB / 1000) % (nB + 1) : 0);
            std::sort(inj.begin(), inj.end());
            out.faults_configured["irq-inject"] += inj.size();
            u64 k = 0, entries = 0, expected = 0;
            std::size_t ni = 0;
            bool pending = false, in_handler = false;
            auto in_main = [&](u32 pc) { return pc >= P_MAIN || pc < 6; };
            for (u64 guard = 0; guard < nB * 3 + 2000 && out.ok(); ++guard) {
                u32 pc = A.b.regs().pc;
                if (in_main(pc)) {
                    in_handler = false;
                    if (k > nB) {
                        out.violate("C09.irq-in-loop", "interrupted program executes more main steps than the undisturbed run");
                        break;
                    }
                    ObsValues v;
                    if (keep_ref)
                        observe_regs(A.b.regs(), v, false);
                    u64 live = A.b.regs().bcn;
                    for (std::size_t i = 0; i < v.size(); ++i) {
                        if (v[i] == ref[k][i])
                            continue;
                        if (pending && names[i].rfind("ip", 0) == 0)
                            continue;
                        // frames at or above the nesting level are dead storage (a finished handler loop leaves its values there)
                        if (names[i].rfind("bkrep_stack[", 0) == 0 && (u64)(names[i][12] - '0') >= live && names[i] != "bcn")
                            continue;
                        bool frame = names[i].rfind("bkrep_stack", 0) == 0 || names[i] == "lp" || names[i] == "bcn";
                        out.violate(frame ? "C09.frame-roundtrip" : "C09.irq-in-loop",
                                    fmt("before main step %llu (pc 0x%x) after %llu handler entries (handler variant %d): %s = 0x%llx, undisturbed "
                                        "run 0x%llx",
                                        (unsigned long long)k, pc, (unsigned long long)entries, hv, names[i].c_str(), (unsigned long long)v[i],
                                        (unsigned long long)ref[k][i]));
                        break;
                    }
                    if (!out.ok())
                        break;
                    if (pc == A.end_addr && ni >= inj.size() && !pending)
                        break;
                    while (ni < inj.size() && inj[ni] <= k) {
                        if (!pending) {
                            A.b.t->MMIOWrite(0x204, 1 << 5);
                            pending = true;
                            ++expected;
                            auto& r = A.b.regs();
                            if (r.rep || r.lp) {
                                out.faults_fired["irq-inject"]++;
                                fault_in_loop = true;
                                out.probes[r.rep ? "inject_inside_rep" : "inject_inside_block"]++;
                                if (r.bcn >= 3)
                                    out.probes["inject_at_depth_3_or_4"]++;
                            }
                        }
                        ++ni;
                    }
                    if (pc == A.end_addr && !pending)
                        break;
                    if (pc != A.end_addr)
                        ++k;
                }
                dead = A.b.run(1);
                out.sim_cycles++;
                if (!dead.empty()) {
                    out.violate("C09.irq-in-loop", "interrupted program aborted at " + dead);
                    break;
                }
                if (A.b.regs().pc == 0x0006 && !in_handler) {
                    in_handler = true;
                    pending = false;
                    ++entries;
                }
            }
            if (out.ok()) {
                // the interrupted program must end with the same counters as the arithmetic says
                auto& ra = A.b.regs();
                if ((s64)ra.a[0] != ex.a0 || (s64)ra.a[1] != ex.a1 || ra.lp || ra.bcn || ra.rep)
                    out.violate("C09.irq-in-loop", fmt("after the interrupted run a0=%lld a1=%lld lp=%d bcn=%d; count+1 executions give a0=%lld a1=%lld "
                                                       "(handler variant %d, %llu entries)", (long long)ra.a[0], (long long)ra.a[1], ra.lp, ra.bcn,
                                                       (long long)ex.a0, (long long)ex.a1, hv, (unsigned long long)entries));
            }
            if (out.ok() && entries != expected)
                out.violate("C09.irq-in-loop", fmt("%llu requests injected (some inside a rep, where entry is deferred), handler entered %llu times",
                                                   (unsigned long long)expected, (unsigned long long)entries));
            if (out.ok()) {
                u64 per = (hv == 1 || hv == 2) ? (u64)plan.knob("hcount", 0) + 1 : 1;
                u16 got = A.b.peek_data(HCNT);
                if (got != (u16)(entries * per))
                    out.violate("C09.count", fmt("the handler's own block repeat (count %lld) ran %u times in %llu entries, expected %llu",
                                                 (long long)plan.knob("hcount", 0), got, (unsigned long long)entries, (unsigned long long)(entries * per)));
            }
            out.probes["handler_entries"] += entries;
        }
        // ---------------- D: the same requests, but the machine runs in long slices between them (A single-steps, and a per-call
        // refresh of anything cached inside Run would hide there): only the end state can be judged, by the arithmetic oracle
        if (out.ok()) {
            std::vector<u64> inj;
            for (auto& s : plan.steps)
                if (s.op == "inj")
                    inj.push_back(nB ? ((u64)s.arg(0) * nB / 1000) % (nB + 1) : 0);
            std::sort(inj.begin(), inj.end());
            if (!inj.empty()) {
                Machine D;
                setup(plan, tree, D, false);
                u64 at = 0;
                dead.clear();
                for (u64 c : inj) {
                    if (c > at && dead.empty()) {
                        dead = D.b.run(c - at);
                        out.sim_cycles += c - at;
                        at = c;
                    }
                    if (!dead.empty())
                        break;
                    D.b.t->MMIOWrite(0x204, 1 << 5);
                    if (D.b.regs().lp || D.b.regs().rep)
                        out.probes["sliced_inject_inside_loop"]++;
                }
                u64 rest = (nB > at ? nB - at : 0) + inj.size() * 400 + 64;
                if (dead.empty()) {
                    dead = D.b.run(rest);
                    out.sim_cycles += rest;
                }
                auto& rd = D.b.regs();
                u64 per = (hv == 1 || hv == 2) ? (u64)plan.knob("hcount", 0) + 1 : 1;
                u16 hc = D.b.peek_data(HCNT);
                if (!dead.empty())
                    out.violate("C09.irq-in-loop", "interrupted program run in long slices aborted at " + dead);
                else if (rd.pc != D.end_addr)
                    out.notes.push_back("long-slice run did not reach its end (harness bound)");
                else if ((s64)rd.a[0] != ex.a0 || (s64)rd.a[1] != ex.a1 || rd.lp || rd.bcn || rd.rep)
                    out.violate("C09.irq-in-loop", fmt("interrupted run in long slices ends with a0=%lld a1=%lld lp=%d bcn=%d rep=%d; count+1 executions "
                                                       "give a0=%lld a1=%lld (handler variant %d, %zu requests at cycles %llu..)", (long long)rd.a[0],
                                                       (long long)rd.a[1], rd.lp, rd.bcn, (int)rd.rep, (long long)ex.a0, (long long)ex.a1, hv, inj.size(),
                                                       (unsigned long long)inj[0]));
                else if (hc == 0 || hc % per != 0 || hc / per > inj.size())
                    out.violate("C09.count", fmt("long-slice run: the handler's own block repeat (count %lld) advanced its counter to %u for %zu requests",
                                                 (long long)plan.knob("hcount", 0), hc, inj.size()));
                else
                    out.probes["sliced_interrupted_run_judged"]++;
            }
        }
        out.nontrivial = has_loop && (fault_in_loop);
        out.sig = tree_sig(tree);
        out.state_sigs.insert(out.sig ^ (u64)hv);
        out.hash = log.h;
        return out;
    }
};

Registrar reg(new C09);

} // namespace
} // namespace sim
