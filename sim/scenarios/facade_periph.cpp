// C15F / C16F — the timers and the audio port driven end to end through the facade: host MMIO writes,
// Teakra::Run in seeded slices over an idling guest (so time advances through Interpreter::Run's
// fast-forward as well as through single ticks), judged against TimerModel / BtdmpModel. They
// complement the component-level scenarios C15 / C16, which never go through the MMIO bindings or Run.
#include "../core/box.h"
#include "../guest/firmware.h"
#include "../models/btdmp_model.h"
#include "../models/timer_model.h"

namespace sim {
namespace {

struct Idle {
    std::unique_ptr<Box> boxp;
    Box& b;
    Idle() : boxp(BoxPool::take(false)), b(*boxp) {
        b.install_callbacks();
        b.reset();
        b.poke_prog(0, op::BRR_SELF);
        for (u16 o = 0x206; o <= 0x20C; o += 2)
            b.t->MMIOWrite(o, 0);
        b.t->MMIOWrite(0x202, 0xFFFF);
    }
};

const u32 kStarts[] = {0, 1, 2, 3, 5, 9, 17, 100, 0xFFFF, 0x10000, 0x10001, 0xFFFFFFFFu};

class C15F : public Scenario {
public:
    const char* prop() const override {
        return "C15F";
    }
    const char* components_real() const override {
        return "Timer x2 through MMIO 0x20-0x3A (src/mmio.cpp bindings), CoreTiming, Interpreter::Run incl. idle fast-forward, ICU "
               "request bits 9/10";
    }
    const char* components_stub() const override {
        return "host CPU (plan steps), idling guest (brr -1)";
    }
    const char* nontrivial_rule() const override {
        return "[facade] non-trivial if a timer fired at least once and a Run slice longer than one cycle was judged";
    }
    std::pair<int, int> pool_need() const override {
        return {1, 0};
    }

    Plan generate(u64 seed, const Tier& tier) override {
        Rng r(seed);
        Plan p;
        int n = (int)r.range(4, tier.thorough ? 60 : 30);
        bool small = r.chance(2, 3);
        for (int i = 0; i < n; ++i) {
            int x = (int)r.below(10);
            s64 t = (s64)r.below(2);
            if (x < 2)
                p.add("cfg", {t, (s64)r.below(4), (s64)r.chance(1, 8), (s64)r.chance(2, 3), (s64)r.chance(2, 3)});
            else if (x < 4)
                p.add("start", {t, (s64)(small ? r.below(40) : r.pick(kStarts))});
            else if (x < 5)
                p.add("event", {t});
            else
                p.add("run", {(s64)(r.chance(1, 3) ? r.range(0, 3) : r.range(1, small ? 120 : 700))});
        }
        return p;
    }

    Outcome execute(const Plan& plan) override {
        Outcome out;
        Hasher log;
        Idle m;
        auto& t = *m.b.t;
        TimerModel tm[2];
        std::string dead;
        bool fired = false, long_slice = false;
        for (std::size_t si = 0; si < plan.steps.size() && out.ok() && dead.empty(); ++si) {
            const Step& s = plan.steps[si];
            int i = (int)(s.arg(0) & 1);
            u16 base = (u16)(0x20 + i * 0x10);
            try {
                if (s.op == "cfg") {
                    int mode = (int)(s.arg(1) & 3);
                    bool pause = s.arg(2) & 1, mu = s.arg(3) & 1, restart = s.arg(4) & 1;
                    t.MMIOWrite(base, timer_cfg_word(mode, pause, mu, restart));
                    tm[i].mode = mode;
                    tm[i].pause = pause;
                    tm[i].mu = mu;
                    if (restart)
                        tm[i].restart();
                } else if (s.op == "start") {
                    u32 v = (u32)s.arg(1);
                    t.MMIOWrite((u16)(base + 4), (u16)v);
                    t.MMIOWrite((u16)(base + 6), (u16)(v >> 16));
                    tm[i].start = v;
                } else if (s.op == "event") {
                    t.MMIOWrite(0x202, 0xFFFF);
                    u64 before = tm[i].irqs;
                    t.MMIOWrite((u16)(base + 2), 1);
                    tm[i].event_write();
                    u16 req = t.MMIORead(0x200);
                    u16 want = tm[i].irqs != before ? (u16)(i == 0 ? 1 << 10 : 1 << 9) : 0;
                    if (req != want)
                        out.violate("C15.irq-count", fmt("step %zu: event write to timer %d: ICU request 0x%04x, model 0x%04x (counter 0x%x)", si, i, req,
                                                         want, tm[i].counter));
                } else if (s.op == "run") {
                    u64 n = (u64)std::min<s64>(s.arg(0), 2000);
                    t.MMIOWrite(0x202, 0xFFFF);
                    u64 before[2] = {tm[0].irqs, tm[1].irqs};
                    dead = m.b.run(n);
                    out.sim_cycles += n;
                    out.faults_configured["slice"]++;
                    for (int k = 0; k < 2; ++k)
                        tm[k].advance(n);
                    if (n > 1) {
                        long_slice = true;
                        out.faults_fired["slice"]++;
                    }
                    if (!dead.empty())
                        break;
                    u16 req = t.MMIORead(0x200), want = 0;
                    if (tm[0].irqs != before[0])
                        want |= 1 << 10;
                    if (tm[1].irqs != before[1])
                        want |= 1 << 9;
                    if (want)
                        fired = true;
                    log.add(req);
                    if (req != want)
                        out.violate("C15.irq-count", fmt("step %zu: after Run(%llu) ICU request bits 0x%04x, timers fired per model 0x%04x (t0 counter 0x%x "
                                                         "mode %d, t1 counter 0x%x mode %d)", si, (unsigned long long)n, req, want, tm[0].counter, tm[0].mode,
                                                         tm[1].counter, tm[1].mode));
                }
            } catch (const VerifAssert& e) {
                dead = e.file + ":" + std::to_string(e.line);
                break;
            }
            // counter mirrors and configuration read back after every step
            for (int k = 0; k < 2 && out.ok(); ++k) {
                u16 b2 = (u16)(0x20 + k * 0x10);
                u32 mirror = t.MMIORead((u16)(b2 + 8)) | (u32)t.MMIORead((u16)(b2 + 0xA)) << 16;
                log.add(mirror);
                if (mirror != tm[k].mirror)
                    out.violate("C15.mirror", fmt("step %zu (%s): timer %d counter mirror reads 0x%08x, model 0x%08x (mode %d pause %d mu %d counter 0x%x)", si,
                                                  s.op.c_str(), k, mirror, tm[k].mirror, tm[k].mode, (int)tm[k].pause, (int)tm[k].mu, tm[k].counter));
            }
            Hasher sg;
            sg.add((u64)tm[0].mode | (u64)tm[1].mode << 2 | (u64)tm[0].pause << 4 | (u64)tm[0].mu << 5);
            sg.add(tm[0].counter == 0 ? 0 : tm[0].counter == 1 ? 1 : 2);
            out.state_sigs.insert(sg.h);
        }
        if (!dead.empty()) {
            out.aborted = true;
            out.abort_site = dead;
        }
        out.probes["facade_timer_irqs"] += tm[0].irqs + tm[1].irqs;
        out.nontrivial = fired && long_slice;
        out.sig = 0xF15 ^ (tm[0].irqs > 3 ? 3 : tm[0].irqs) ^ ((u64)tm[0].mode << 4);
        out.hash = log.h;
        return out;
    }
};

class C16F : public Scenario {
public:
    const char* prop() const override {
        return "C16F";
    }
    const char* components_real() const override {
        return "Btdmp x2 through MMIO 0x2BE-0x2CA / 0x33E-0x34A, audio callback wiring, CoreTiming, Interpreter::Run incl. idle "
               "fast-forward, ICU request bits 11/12";
    }
    const char* components_stub() const override {
        return "host CPU (plan steps), idling guest, audio sink log";
    }
    const char* nontrivial_rule() const override {
        return "[facade] non-trivial if at least one frame with queued data reached the audio callback inside a Run slice";
    }
    std::pair<int, int> pool_need() const override {
        return {1, 0};
    }

    Plan generate(u64 seed, const Tier& tier) override {
        Rng r(seed);
        Plan p;
        int n = (int)r.range(4, tier.thorough ? 50 : 24);
        u16 word = (u16)r.range(1, 0x6000);
        for (int i = 0; i < n; ++i) {
            int x = (int)r.below(12);
            s64 port = (s64)r.chance(1, 4);
            if (x < 4) {
                int burst = r.chance(1, 3) ? (int)r.range(2, 18) : 1;
                for (int j = 0; j < burst; ++j)
                    p.add("send", {port, (s64)word++});
            } else if (x < 6)
                p.add("enable", {port, (s64)r.chance(3, 4)});
            else if (x < 7)
                p.add("flush", {port});
            else
                p.add("run", {(s64)(r.chance(1, 2) ? r.range(0, 5000) : r.range(3000, 9000))});
        }
        return p;
    }

    Outcome execute(const Plan& plan) override {
        Outcome out;
        Hasher log;
        Idle m;
        auto& t = *m.b.t;
        BtdmpModel bm[2];
        std::string dead;
        bool data_frame = false;
        // paused timers so that only the audio ports bound the fast-forward
        t.MMIOWrite(0x20, 0x0100);
        t.MMIOWrite(0x30, 0x0100);
        for (std::size_t si = 0; si < plan.steps.size() && out.ok() && dead.empty(); ++si) {
            const Step& s = plan.steps[si];
            int i = (int)(s.arg(0) & 1);
            u16 off = (u16)(i * 0x80);
            try {
                if (s.op == "send") {
                    t.MMIOWrite((u16)(0x2C6 + off), (u16)s.arg(1));
                    bm[i].send((u16)s.arg(1));
                } else if (s.op == "enable") {
                    t.MMIOWrite((u16)(0x2BE + off), (u16)(s.arg(1) & 1));
                    bm[i].enable = s.arg(1) & 1;
                } else if (s.op == "flush") {
                    t.MMIOWrite((u16)(0x2CA + off), 1);
                    bm[i].flush();
                } else if (s.op == "run") {
                    u64 n = (u64)std::min<s64>(s.arg(0), 12000);
                    t.MMIOWrite(0x202, 0xFFFF);
                    std::size_t ev0 = m.b.events.size(), f0 = bm[0].frames.size();
                    u64 irq0[2] = {bm[0].irqs, bm[1].irqs};
                    dead = m.b.run(n);
                    out.sim_cycles += n;
                    out.faults_configured["slice"]++;
                    out.faults_fired["slice"]++;
                    for (u64 c = 0; c < n; ++c) {
                        bm[0].tick();
                        bm[1].tick();
                    }
                    if (!dead.empty())
                        break;
                    // port 0 feeds the audio callback: frames of this slice, in order
                    std::vector<Frame> got;
                    for (std::size_t e = ev0; e < m.b.events.size(); ++e)
                        if (m.b.events[e].kind == Event::Audio)
                            got.push_back(Frame{(s64)(std::int16_t)m.b.events[e].a, (s64)(std::int16_t)m.b.events[e].b});
                    std::vector<Frame> want(bm[0].frames.begin() + (long)f0, bm[0].frames.end());
                    log.add(got.size());
                    if (got.size() != want.size())
                        out.violate("C16.frame", fmt("step %zu: Run(%llu) delivered %zu audio frames, one per 4096 enabled cycles gives %zu (phase %u)", si,
                                                     (unsigned long long)n, got.size(), want.size(), bm[0].phase));
                    for (std::size_t k = 0; k < got.size() && out.ok(); ++k) {
                        log.add((u64)got[k].l);
                        if (!(got[k] == want[k]))
                            out.violate("C16.order", fmt("step %zu: frame %zu of the slice is (%lld,%lld), model (%lld,%lld)", si, k, (long long)got[k].l,
                                                         (long long)got[k].r, (long long)want[k].l, (long long)want[k].r));
                        if (want[k].l || want[k].r)
                            data_frame = true;
                    }
                    u16 req = t.MMIORead(0x200), wreq = 0;
                    if (bm[0].irqs != irq0[0])
                        wreq |= 1 << 11;
                    if (bm[1].irqs != irq0[1])
                        wreq |= 1 << 12;
                    if (out.ok() && req != wreq)
                        out.violate("C16.irq", fmt("step %zu: after Run(%llu) ICU request bits 0x%04x, queues emptied per model 0x%04x", si,
                                                   (unsigned long long)n, req, wreq));
                }
            } catch (const VerifAssert& e) {
                dead = e.file + ":" + std::to_string(e.line);
                break;
            }
            for (int k = 0; k < 2 && out.ok(); ++k) {
                u16 st = t.MMIORead((u16)(0x2C2 + k * 0x80));
                bool full = (st >> 3) & 1, empty = (st >> 4) & 1;
                log.add(st & 0x18);
                if (full != bm[k].full() || empty != bm[k].empty())
                    out.violate("C16.flags", fmt("step %zu (%s): port %d status full=%d empty=%d, model full=%d empty=%d (%zu words)", si, s.op.c_str(), k,
                                                 (int)full, (int)empty, (int)bm[k].full(), (int)bm[k].empty(), bm[k].fifo.size()));
            }
            Hasher sg;
            sg.add(bm[0].fifo.size());
            sg.add(bm[0].enable);
            sg.add(bm[1].fifo.size() > 0);
            out.state_sigs.insert(sg.h);
        }
        if (!dead.empty()) {
            out.aborted = true;
            out.abort_site = dead;
        }
        out.probes["facade_audio_frames"] += bm[0].frames.size();
        out.nontrivial = data_frame;
        out.sig = 0xF16 ^ (bm[0].frames.size() > 4 ? 4 : bm[0].frames.size());
        out.hash = log.h;
        return out;
    }
};

Registrar r15(new C15F);
Registrar r16(new C16F);

} // namespace
} // namespace sim
