// C16 — audio FIFO: every queued word is output once, in order, one frame per period;
// flags and the empty interrupt are exact; Skip(k) == Tick^k up to the reported horizon.
// Component level: real Btdmp + CoreTiming, a single-stepped real twin, and BtdmpModel.
#include "../core/common.h"
#include "../models/btdmp_model.h"
#include "btdmp.h"
#include "core_timing.h"

namespace sim {
namespace {

struct RealBtdmp {
    Teakra::CoreTiming ct;
    Teakra::Btdmp b{ct};
    u64 irqs = 0;
    std::vector<Frame> frames;
    RealBtdmp() {
        b.SetInterruptHandler([this]() { ++irqs; });
        b.SetAudioCallback([this](std::array<std::int16_t, 2> s) { frames.push_back(Frame{s[0], s[1]}); });
    }
};

const u32 kPeriods[] = {1, 2, 3, 4, 5, 7, 16, 100, 1000, 4096, 5000};

class C16 : public Scenario {
public:
    const char* prop() const override {
        return "C16";
    }
    const char* components_real() const override {
        return "Btdmp (src/btdmp.cpp), CoreTiming (src/core_timing.h)";
    }
    const char* components_stub() const override {
        return "audio sink = frame log; interrupt handler = counter; MMIO (Send/flush/enable called directly)";
    }
    const char* nontrivial_rule() const override {
        return "non-trivial if at least one frame was emitted or one Skip(k>0) applied while transmission was enabled "
               "and at least one word was queued; distinct = distinct (plan shape hash, final state signature)";
    }
    std::vector<std::pair<std::string, s64>> simplest_knobs() const override {
        return {{"period_change", 0}};
    }

    Plan generate(u64 seed, const Tier& tier) override {
        Rng r(seed);
        Plan p;
        bool period_change = r.chance(1, 8);
        p.set_knob("period_change", period_change);
        u32 period = r.chance(2, 3) ? r.pick(kPeriods) : (u32)r.range(1, 5000);
        if (r.chance(1, 3))
            period = (u32)r.range(1, 6);
        p.add("period", {(s64)period});
        int n = (int)r.range(4, tier.thorough ? 80 : 30);
        int w_send = (int)r.range(1, 8), w_skip = (int)r.range(1, 6), w_tick = (int)r.range(1, 4),
            w_en = (int)r.range(1, 2), w_flush = (int)r.range(0, 2), w_per = period_change ? 2 : 0;
        u16 next_word = (u16)r.range(1, 0x7000);
        if (r.chance(3, 4))
            p.add("enable", {1});
        for (int i = 0; i < n; ++i) {
            int tot = w_send + w_skip + w_tick + w_en + w_flush + w_per;
            int x = (int)r.below((u64)tot);
            if ((x -= w_send) < 0) {
                int burst = r.chance(1, 4) ? (int)r.range(1, 18) : 1;
                for (int j = 0; j < burst; ++j)
                    p.add("send", {(s64)(next_word++)}); // unique values: each output word is attributable
            } else if ((x -= w_skip) < 0)
                p.add("skip", {(s64)r.below(6), (s64)(r.next() & 0x7FFFFFFFFFFFll)});
            else if ((x -= w_tick) < 0)
                p.add("tick", {(s64)r.below(4), (s64)r.range(1, 16)});
            else if ((x -= w_en) < 0)
                p.add("enable", {(s64)r.chance(2, 3)});
            else if ((x -= w_flush) < 0)
                p.add("flush");
            else
                p.add("period", {(s64)(r.chance(1, 2) ? r.pick(kPeriods) : (u32)r.range(1, 5000))});
        }
        return p;
    }

    Outcome execute(const Plan& plan) override {
        Outcome out;
        Hasher log;
        RealBtdmp a, b;
        BtdmpModel m;
        bool period_change = plan.knob("period_change") != 0;
        bool period_set = false;
        bool did_something = false;
        u64 last_kclass = 9;

        auto compare = [&](const char* cls_frames, std::size_t si) {
            log.add(a.frames.size());
            log.add(a.irqs);
            log.add(a.b.GetTransmitEmpty());
            log.add(a.b.GetTransmitFull());
            if (!out.ok())
                return;
            if (a.frames.size() != m.frames.size()) {
                out.violate(cls_frames, fmt("step %zu: %zu frames emitted, model %zu (period=%u phase=%u fifo=%zu)", si,
                                            a.frames.size(), m.frames.size(), m.period, m.phase, m.fifo.size()));
                return;
            }
            for (std::size_t i = 0; i < a.frames.size(); ++i)
                if (!(a.frames[i] == m.frames[i])) {
                    out.violate("C16.order", fmt("step %zu: frame %zu = (%lld,%lld), model (%lld,%lld)", si, i,
                                                 (long long)a.frames[i].l, (long long)a.frames[i].r,
                                                 (long long)m.frames[i].l, (long long)m.frames[i].r));
                    return;
                }
            if ((a.b.GetTransmitEmpty() != 0) != m.empty() || (a.b.GetTransmitFull() != 0) != m.full()) {
                out.violate("C16.flags", fmt("step %zu: empty=%d full=%d, model empty=%d full=%d (fifo=%zu)", si,
                                             (int)a.b.GetTransmitEmpty(), (int)a.b.GetTransmitFull(), (int)m.empty(),
                                             (int)m.full(), m.fifo.size()));
                return;
            }
            if (a.irqs != m.irqs)
                out.violate("C16.irq", fmt("step %zu: empty interrupts real=%llu model=%llu", si,
                                           (unsigned long long)a.irqs, (unsigned long long)m.irqs));
        };
        auto compare_twin = [&](std::size_t si, u64 k) {
            if (!out.ok())
                return;
            bool same = a.frames.size() == b.frames.size() && a.irqs == b.irqs &&
                        a.b.GetTransmitEmpty() == b.b.GetTransmitEmpty() && a.b.GetTransmitFull() == b.b.GetTransmitFull();
            if (same)
                for (std::size_t i = 0; i < a.frames.size(); ++i)
                    if (!(a.frames[i] == b.frames[i]))
                        same = false;
            if (!same)
                out.violate("C16.skip-ne-ticks",
                            fmt("step %zu: Skip(%llu): frames=%zu irqs=%llu empty=%d; %llu single ticks: frames=%zu irqs=%llu "
                                "empty=%d (period=%u)",
                                si, (unsigned long long)k, a.frames.size(), (unsigned long long)a.irqs,
                                (int)a.b.GetTransmitEmpty(), (unsigned long long)k, b.frames.size(),
                                (unsigned long long)b.irqs, (int)b.b.GetTransmitEmpty(), m.period));
        };
        auto tick_all = [&](u64 n, std::size_t si) {
            for (u64 i = 0; i < n && out.ok(); ++i) {
                a.ct.Tick();
                b.ct.Tick();
                m.tick();
                out.sim_cycles++;
            }
            compare("C16.frame", si);
        };

        try {
            for (std::size_t si = 0; si < plan.steps.size() && out.ok(); ++si) {
                const Step& s = plan.steps[si];
                if (s.op == "period") {
                    u32 v = (u32)std::max<s64>(1, std::min<s64>(s.arg(0), 65535));
                    if (period_set && !period_change)
                        continue;
                    // a period is only ever installed while the current phase is a valid phase of it
                    // (phase < period); a phase >= period is not a state of the documented device
                    if (v <= m.phase)
                        v = m.phase + 1;
                    if (v > 65535)
                        continue;
                    a.b.SetTransmitPeriod((u16)v);
                    b.b.SetTransmitPeriod((u16)v);
                    m.period = v;
                    if (period_set)
                        out.probes["period_changed_mid_run"]++;
                    period_set = true;
                } else if (s.op == "enable") {
                    bool v = s.arg(0) & 1;
                    a.b.SetTransmitEnable(v);
                    b.b.SetTransmitEnable(v);
                    m.enable = v;
                    compare("C16.frame", si);
                } else if (s.op == "send") {
                    u16 v = (u16)s.arg(0);
                    if (m.full())
                        out.probes["send_to_full_queue"]++;
                    a.b.Send(v);
                    b.b.Send(v);
                    m.send(v);
                    compare("C16.frame", si);
                } else if (s.op == "flush") {
                    if (!m.empty())
                        out.probes["flush_nonempty"]++;
                    a.b.SetTransmitFlush(1);
                    b.b.SetTransmitFlush(1);
                    m.flush();
                    compare("C16.frame", si);
                } else if (s.op == "tick") {
                    u64 n;
                    switch (s.arg(0) % 4) {
                    case 0:
                        n = (u64)std::min<s64>(s.arg(1), 64);
                        break;
                    case 1: // up to just before the next frame
                        n = m.enable ? (m.period - m.phase > 1 ? m.period - m.phase - 1 : 0) : 3;
                        break;
                    case 2: // exactly onto the next frame
                        n = m.enable ? m.period - m.phase : 2;
                        break;
                    default:
                        n = (u64)s.arg(1) % (2 * (u64)m.period + 1);
                        break;
                    }
                    std::size_t before = m.frames.size();
                    tick_all(n, si);
                    if (m.frames.size() != before && m.enable)
                        did_something = true;
                } else if (s.op == "skip") {
                    out.faults_configured["fast-forward"]++;
                    u64 horizon = a.b.GetMaxSkip();
                    log.add(horizon);
                    u64 n = m.next_irq();
                    bool inf = horizon == Teakra::CoreTiming::Callbacks::Infinity;
                    if (n != ~0ull && (inf || horizon > n - 1)) {
                        out.violate("C16.horizon-too-far",
                                    fmt("step %zu: reported horizon %llu but the queue empties on tick %llu (period=%u phase=%u "
                                        "fifo=%zu)",
                                        si, (unsigned long long)horizon, (unsigned long long)n, m.period, m.phase, m.fifo.size()));
                        break;
                    }
                    u64 cap = inf ? (m.enable ? 3 * (u64)m.period + 5 : (1ull << 40)) : horizon;
                    u64 k;
                    switch (s.arg(0) % 6) {
                    case 0:
                        k = 0;
                        break;
                    case 1:
                        k = std::min<u64>(1, cap);
                        break;
                    case 2:
                        k = cap;
                        break;
                    case 3:
                        k = cap ? cap - 1 : 0;
                        break;
                    case 4:
                        k = (u64)s.arg(1) % (std::min<u64>(cap, (u64)m.period + 2) + 1);
                        break;
                    default:
                        k = (u64)s.arg(1) % (cap + 1);
                        break;
                    }
                    if (k == 0)
                        out.probes["skip_len_0"]++;
                    if (!inf && k == horizon && k > 0)
                        out.probes["skip_full_horizon"]++;
                    if (m.fifo.size() % 2 == 1)
                        out.probes["fifo_odd_at_skip"]++;
                    if (m.enable && !m.fifo.empty() && k >= m.period - m.phase)
                        out.probes["skip_crosses_frame_with_data"]++;
                    if (m.enable && k > 0) {
                        out.faults_fired["fast-forward"]++;
                        if (!m.fifo.empty())
                            did_something = true;
                    }
                    bool follow = m.enable ? k <= 200000 : true;
                    u64 irq_before = m.irqs;
                    a.b.Skip(k);
                    if (m.enable) {
                        for (u64 i = 0; i < k; ++i)
                            m.tick();
                        if (follow)
                            for (u64 i = 0; i < k; ++i)
                                b.ct.Tick();
                        out.sim_cycles += k;
                    }
                    if (m.irqs != irq_before) {
                        out.violate("C16.horizon-too-far", fmt("step %zu: model emptied inside a skip of %llu", si,
                                                               (unsigned long long)k));
                        break;
                    }
                    last_kclass = k == 0 ? 0 : k == 1 ? 1 : (!inf && k == horizon) ? 2 : 3;
                    Hasher sg;
                    sg.add(m.enable);
                    sg.add(m.fifo.size());
                    sg.add(m.period < 8 ? m.period : 8);
                    sg.add(m.phase == 0 ? 0 : m.phase + 1 == m.period ? 2 : 1);
                    sg.add(last_kclass);
                    out.state_sigs.insert(sg.h);
                    compare_twin(si, k);
                    compare("C16.skip-ne-ticks", si);
                }
            }
            // drain: whatever is still queued must come out in order, once
            if (out.ok() && !m.fifo.empty()) {
                a.b.SetTransmitEnable(1);
                b.b.SetTransmitEnable(1);
                m.enable = true;
                u64 n = m.next_irq();
                if (n != ~0ull && n <= 9ull * 65536)
                    tick_all(n, plan.steps.size());
                if (out.ok() && !m.fifo.empty())
                    out.violate("C16.frame", "drain: model queue not empty after its own next_irq() ticks (harness)");
            }
        } catch (const VerifAssert& e) {
            out.violate("C16.assert", "teakra ASSERT(" + e.expr + ") at " + e.file + ":" + std::to_string(e.line));
        }
        out.probes["frames"] += m.frames.size();
        out.probes["empty_irqs"] += m.irqs;
        out.nontrivial = did_something;
        Hasher sg;
        sg.add(m.frames.size() > 6 ? 6 : m.frames.size());
        sg.add(m.irqs > 3 ? 3 : m.irqs);
        sg.add(m.period < 8 ? m.period : 8);
        sg.add(last_kclass);
        out.sig = sg.h;
        out.hash = log.h;
        return out;
    }
};

Registrar reg(new C16);

} // namespace
} // namespace sim
