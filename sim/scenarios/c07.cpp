// C07 — interrupts are delivered exactly once, in priority order, never spuriously.
// The guest is a loop of gadgets from a closed menu plus four handlers; the DSP is stepped one
// instruction boundary at a time (Run(1); C06 extends the result to every slicing) while the host
// triggers / acknowledges / routes / programs sources between arbitrary boundaries. IcuCoreModel below
// is written from icu.md, the property text and DESIGN.md appendix A.4 and decides for every boundary
// whether a handler must be entered, which one, and with which return address.
#include "../core/box.h"
#include "../guest/firmware.h"
#include "../models/timer_model.h"

namespace sim {
namespace {

constexpr u32 H_ADDR[3] = {0x0040, 0x0070, 0x00A0};
constexpr u32 MAIN = 0x0100;

struct Ins {
    enum Kind : u8 { Plain, Eint, Dint, Mod3, Rep, Store, Br, Reti, Retic, St0, St2 };
    Kind kind = Plain;
    u8 len = 1;
    u32 a = 0; // Mod3: value; Rep: count; Br: target
};

struct IcuCoreModel {
    // ICU
    u16 request = 0, en[3] = {0, 0, 0}, env = 0;
    u32 vec[16];
    bool vctx[16];
    // core
    bool latch[3] = {false, false, false}, vlatch = false;
    u32 vaddr = 0;
    bool vctx_l = false;
    bool ip[3] = {false, false, false}, ipv = false;
    bool im[3] = {false, false, false}, imv = false, ie = false;
    bool ic[3] = {false, false, false};
    bool sh_im[3] = {false, false, false}, sh_imv = false; // two-way bank exchanged by a context switch
    bool rep_on = false;
    u32 repc = 0;
    u32 pc = 0;
    std::vector<u32> stack; // return addresses
    TimerModel timer[2];
    // bookkeeping for the judgement
    int entered = -1;        // line entered in the last step (0..2, 3 = vectored), -1 none
    u32 pushed = 0;          // return address pushed in the last step
    bool raised_in_step = false;
    u64 entries[4] = {0, 0, 0, 0};
    bool lost = false;

    IcuCoreModel() {
        for (auto& v : vec)
            v = 0;
        for (auto& v : vctx)
            v = false;
    }
    void trigger(u16 bits) {
        request |= bits;
        for (int irq = 0; irq < 16; ++irq) {
            if (!((bits >> irq) & 1))
                continue;
            for (int l = 0; l < 3; ++l)
                if ((en[l] >> irq) & 1)
                    latch[l] = true;
            if ((env >> irq) & 1) {
                vlatch = true;
                vaddr = vec[irq];
                vctx_l = vctx[irq];
            }
        }
        raised_in_step = true;
    }
    void set_mod3(u16 v) {
        ic[0] = (v >> 1) & 1;
        ic[1] = (v >> 2) & 1;
        ic[2] = (v >> 3) & 1;
        ie = (v >> 7) & 1;
        im[0] = (v >> 8) & 1;
        im[1] = (v >> 9) & 1;
        im[2] = (v >> 10) & 1;
        imv = (v >> 11) & 1;
    }
    // a register write inside the MMIO window (offset relative to the window base)
    void mmio_write(u16 off, u16 v) {
        switch (off) {
        case 0x202:
            request &= (u16)~v;
            return;
        case 0x204:
            trigger(v);
            return;
        case 0x206:
        case 0x208:
        case 0x20A:
            en[(off - 0x206) / 2] = v;
            return;
        case 0x20C:
            env = v;
            return;
        default:
            break;
        }
        if (off >= 0x212 && off < 0x252) {
            int irq = (off - 0x212) / 4;
            if ((off - 0x212) % 4 == 0) {
                vec[irq] = (vec[irq] & 0xFFFF) | ((u32)(v & 3) << 16);
                vctx[irq] = (v >> 15) & 1;
            } else {
                vec[irq] = (vec[irq] & 0x30000) | v;
            }
            return;
        }
        for (int t = 0; t < 2; ++t) {
            u16 b = (u16)(0x20 + t * 0x10);
            if (off == b) {
                timer[t].mode = (v >> 2) & 3;
                timer[t].pause = (v >> 8) & 1;
                timer[t].mu = (v >> 9) & 1;
                if (v & 0x400)
                    timer[t].restart();
            } else if (off == b + 2) {
                if (v) {
                    u64 before = timer[t].irqs;
                    timer[t].event_write();
                    if (timer[t].irqs != before)
                        trigger(t == 0 ? 1 << 10 : 1 << 9);
                }
            } else if (off == b + 4) {
                timer[t].start = (timer[t].start & 0xFFFF0000u) | v;
            } else if (off == b + 6) {
                timer[t].start = (timer[t].start & 0xFFFFu) | ((u32)v << 16);
            }
        }
    }
    void ctx_swap() {
        for (int l = 0; l < 3; ++l)
            std::swap(im[l], sh_im[l]);
        std::swap(imv, sh_imv);
    }
    // one cycle. r0/r1: the real register values before the step (operands of a store gadget).
    // early: a request raised by this very instruction may already be taken at this boundary.
    void step(const std::map<u32, Ins>& prog, u16 r0, u16 r1, bool early) {
        entered = -1;
        raised_in_step = false;
        for (int l = 0; l < 3; ++l)
            if (latch[l]) {
                ip[l] = true;
                latch[l] = false;
            }
        if (vlatch) {
            ipv = true;
            vlatch = false;
        }
        auto it = prog.find(pc);
        if (it == prog.end()) {
            lost = true;
            return;
        }
        const Ins& ins = it->second;
        u32 next = pc + ins.len;
        if (rep_on) {
            if (repc == 0)
                rep_on = false;
            else {
                --repc;
                next = pc;
            }
        }
        switch (ins.kind) {
        case Ins::Eint:
            ie = true;
            break;
        case Ins::Dint:
            ie = false;
            break;
        case Ins::Mod3:
            set_mod3((u16)ins.a);
            break;
        case Ins::St0: // st0: bit 1 ie, bit 2 im0, bit 3 im1 (the pending bits are not part of st0)
            ie = (ins.a >> 1) & 1;
            im[0] = (ins.a >> 2) & 1;
            im[1] = (ins.a >> 3) & 1;
            break;
        case Ins::St2: // st2: bit 6 im2; its ip0-2 bits (13..15) are read-only
            im[2] = (ins.a >> 6) & 1;
            break;
        case Ins::Rep:
            rep_on = true;
            repc = ins.a;
            break;
        case Ins::Store:
            if (r1 >= MMIO && r1 < MMIO + 0x800)
                mmio_write((u16)(r1 - MMIO), r0);
            break;
        case Ins::Br:
            next = ins.a;
            break;
        case Ins::Reti:
        case Ins::Retic:
            if (stack.empty()) {
                lost = true;
                return;
            }
            next = stack.back();
            stack.pop_back();
            ie = true;
            if (ins.kind == Ins::Retic)
                ctx_swap();
            break;
        default:
            break;
        }
        pc = next;
        if (early) {
            for (int l = 0; l < 3; ++l)
                if (latch[l]) {
                    ip[l] = true;
                    latch[l] = false;
                }
            if (vlatch) {
                ipv = true;
                vlatch = false;
            }
        }
        if (ie && !rep_on) {
            int line = -1;
            for (int l = 0; l < 3; ++l)
                if (im[l] && ip[l]) {
                    line = l;
                    break;
                }
            if (line < 0 && imv && ipv)
                line = 3;
            if (line >= 0) {
                entered = line;
                pushed = pc;
                stack.push_back(pc);
                ie = false;
                ++entries[line];
                if (line < 3) {
                    ip[line] = false;
                    pc = 0x0006 + 8 * (u32)line;
                    if (ic[line])
                        ctx_swap();
                } else {
                    ipv = false;
                    pc = vaddr;
                    if (vctx_l)
                        ctx_swap();
                }
            }
        }
        // end of cycle: peripherals tick
        for (int t = 0; t < 2; ++t) {
            u64 before = timer[t].irqs;
            timer[t].tick();
            if (timer[t].irqs != before)
                trigger(t == 0 ? 1 << 10 : 1 << 9);
        }
    }
};

class C07 : public Scenario {
public:
    const char* prop() const override {
        return "C07";
    }
    const char* components_real() const override {
        return "ICU (src/icu.h), Interpreter interrupt entry/return, Processor latches, source wiring in Teakra::Impl (timers, audio "
               "ports, APBP, DMA), MMIO bindings 0x200-0x250, Timer x2";
    }
    const char* components_stub() const override {
        return "host CPU (plan steps); IcuCoreModel + TimerModel as reference";
    }
    const char* nontrivial_rule() const override {
        return "non-trivial if at least one handler entry was predicted and observed and at least one request was raised while it "
               "could not be taken at once (masked, globally disabled, inside a repeat, or lower priority); distinct = distinct (plan "
               "shape hash, signature of entry counts per line)";
    }
    std::pair<int, int> pool_need() const override {
        return {1, 0};
    }
    std::vector<std::pair<std::string, s64>> simplest_knobs() const override {
        return {{"t0cfg", 0}, {"t1cfg", 0}, {"h0", 0}, {"h1", 0}, {"h2", 0}, {"h3", 0}, {"vctx", 0}, {"env", 0}, {"en2", 0}, {"en1", 0}};
    }

    // ---------------------------------------------------------------- program construction (pure function of the plan's knobs + "g" steps)
    struct Program {
        Asm a;
        std::map<u32, Ins> ins;
        u32 hv[2] = {0x0300, 0x0340};
        void put(Ins::Kind k, u8 len, u32 arg = 0) {
            Ins i;
            i.kind = k;
            i.len = len;
            i.a = arg;
            ins[a.at] = i;
        }
        void plain1(u16 w) {
            put(Ins::Plain, 1);
            a.w(w);
        }
        void plain2(u16 w, u16 x) {
            put(Ins::Plain, 2);
            a.w2(w, x);
        }
        void store(u16 addr, u16 v) {
            plain2((u16)(0x5E00 | op::R0), v);
            plain2((u16)(0x5E00 | op::R1), addr);
            put(Ins::Store, 1);
            a.w(op::MOV_R0_TO_MR1);
        }
        void br(u32 target) {
            put(Ins::Br, 2, target);
            a.br(target);
        }
    };

    static void build(const Plan& plan, Program& p) {
        p.hv[0] = (u32)plan.knob("hv", 0x0300);
        p.hv[1] = p.hv[0] + 0x40;
        p.a.org(0);
        p.br(MAIN);
        for (int l = 0; l < 3; ++l) {
            p.a.org(0x0006 + 8 * (u32)l);
            p.br(H_ADDR[l]);
        }
        for (int h = 0; h < 5; ++h) {
            u32 at = h < 3 ? H_ADDR[h] : p.hv[h - 3];
            u16 flags = (u16)plan.knob("h" + std::to_string(h < 4 ? h : 3), 0);
            p.a.org(at);
            p.plain1(op::INC_A1);
            bool stores = flags & 3;
            if (flags & 8)
                p.put(Ins::Eint, 1), p.a.w(op::EINT); // nested interrupts allowed inside this handler
            if (stores) {
                p.plain1(op::PUSH_R0);
                p.plain1(op::PUSH_R1);
            }
            if (flags & 1)
                p.store(MMIO + 0x202, (u16)plan.knob("ackbits", 0xFFFF));
            if (flags & 2)
                p.store(MMIO + 0x204, (u16)(1u << ((flags >> 8) & 15)));
            if (stores) {
                p.plain1(op::POP_R1);
                p.plain1(op::POP_R0);
            }
            bool ctx = h < 3 ? ((plan.knob("mod3", 0) >> (1 + h)) & 1) : (plan.knob("vctx", 0) & 1);
            // the handler returns with the instruction that matches how it was entered
            if (flags & 4)
                ctx = !ctx; // deliberately mismatched return: legal code, the model follows it
            p.put(ctx ? Ins::Retic : Ins::Reti, 1);
            p.a.w(ctx ? op::RETIC : op::RETI);
        }
        p.a.org(MAIN);
        p.plain2((u16)(0x5E00 | op::SP), 0x0F00);
        p.put(Ins::Mod3, 2, (u32)plan.knob("mod3", 0));
        p.a.mov_imm_sttmod(op::MOD3, (u16)plan.knob("mod3", 0));
        u32 loop = p.a.at;
        int gadgets = 0;
        for (auto& s : plan.steps) {
            if (s.op != "g")
                continue;
            if (p.a.at > 0x02C0 || ++gadgets > 60)
                break;
            switch (s.arg(0) % 12) {
            case 10: { // mov imm, st0 — another view of ie, im0, im1
                u16 v = (u16)(s.arg(1) & 0x000E);
                p.put(Ins::St0, 2, v);
                p.a.mov_imm(op::ST0, v);
                break;
            }
            case 11: { // mov imm, st2 — another view of im2; writing its pending bits must have no effect
                u16 v = (u16)((s.arg(1) & 0x0040) | (s.arg(2) & 0xE000));
                p.put(Ins::St2, 2, v);
                p.a.mov_imm(op::ST2, v);
                break;
            }
            case 0:
                p.plain1(op::NOP);
                break;
            case 1:
                p.plain1(op::INC_A0);
                break;
            case 2:
                p.plain2((u16)(0x5E00 | op::R2), (u16)s.arg(1));
                break;
            case 3:
                p.put(Ins::Eint, 1);
                p.a.w(op::EINT);
                break;
            case 4:
                p.put(Ins::Dint, 1);
                p.a.w(op::DINT);
                break;
            case 5: {
                u16 v = (u16)((plan.knob("mod3", 0) & 0xE000) | (s.arg(1) & 0x0F8E));
                p.put(Ins::Mod3, 2, v);
                p.a.mov_imm_sttmod(op::MOD3, v);
                break;
            }
            case 6: {
                u8 n = (u8)(s.arg(1) % 6);
                p.put(Ins::Rep, 1, n);
                p.a.rep_imm(n);
                p.plain1(op::INC_A0);
                break;
            }
            case 7: // ICU register store
                switch (s.arg(1) % 6) {
                case 0:
                case 1:
                    p.store(MMIO + 0x204, (u16)(s.arg(2) & 0xFFFF));
                    break;
                case 2:
                    p.store(MMIO + 0x202, (u16)(s.arg(2) & 0xFFFF));
                    break;
                case 3:
                    p.store((u16)(MMIO + 0x206 + 2 * ((s.arg(2) >> 4) % 3)), (u16)(s.arg(2) & 0xFFFF));
                    break;
                case 4: {
                    // re-point the vectored entry of the vectored irq to one of the two vectored handlers
                    int irq = (int)plan.knob("virq", 0);
                    p.store((u16)(MMIO + 0x214 + 4 * irq), (u16)p.hv[(s.arg(2) >> 3) & 1]);
                    break;
                }
                default: {
                    int irq = (int)plan.knob("virq", 0);
                    p.store((u16)(MMIO + 0x212 + 4 * irq), (u16)(((p.hv[0] >> 16) & 3) | ((s.arg(2) >> 5) & 1) << 15));
                    break;
                }
                }
                break;
            case 8: { // timer programming: small start values so that it fires within the run
                int t = (int)(s.arg(1) & 1);
                p.store((u16)(MMIO + 0x24 + t * 0x10), (u16)(s.arg(2) % 23));
                p.store((u16)(MMIO + 0x20 + t * 0x10), timer_cfg_word((int)((s.arg(1) >> 1) & 3), false, true, true));
                break;
            }
            default: // event write (event-count mode timers)
                p.store((u16)(MMIO + 0x22 + (s.arg(1) & 1) * 0x10), 1);
                break;
            }
        }
        p.br(loop);
    }

    Plan generate(u64 seed, const Tier& tier) override {
        Rng r(seed);
        Plan p;
        if (r.chance(1, 10)) {
            p.set_knob("mode", 1); // wiring by source
            for (int i = 0; i < 8; ++i)
                p.add("src", {(s64)r.below(8), (s64)(r.next() & 0xFFFF)});
            return p;
        }
        p.set_knob("mode", 0);
        u16 mod3 = (u16)(r.below(8) << 1 | r.below(2) << 7 | r.below(16) << 8 | r.below(2) << 13 | r.below(2) << 14 | r.below(2) << 15);
        if (r.chance(3, 4))
            mod3 |= 0x80 | (u16)(1u << (8 + r.below(4)));
        p.set_knob("mod3", mod3);
        // routing: every irq source of the alphabet goes to 0..2 lines, at most one irq is vectored
        int virq = (int)r.below(16);
        p.set_knob("virq", virq);
        u16 en[3] = {0, 0, 0};
        for (int irq = 0; irq < 16; ++irq) {
            if (irq == virq && r.chance(2, 3))
                continue;
            int k = (int)r.below(4);
            if (k < 3 && r.chance(2, 3))
                en[k] |= (u16)(1u << irq);
            if (r.chance(1, 6))
                en[r.below(3)] |= (u16)(1u << irq);
        }
        p.set_knob("en0", en[0]);
        p.set_knob("en1", en[1]);
        p.set_knob("en2", en[2]);
        p.set_knob("env", r.chance(3, 4) ? (s64)(1u << virq) : 0);
        p.set_knob("vctx", (s64)r.below(2));
        const u32 hvs[] = {0x0300, 0x0400, 0x1FC0, 0x2340, 0x10300, 0x3FF00};
        p.set_knob("hv", (s64)r.pick(hvs));
        for (int t = 0; t < 2; ++t) {
            bool on = r.chance(1, 2);
            p.set_knob("t" + std::to_string(t) + "cfg", on ? timer_cfg_word((int)r.below(4), false, r.chance(1, 2), false) : 0);
            p.set_knob("t" + std::to_string(t) + "start", on ? (s64)r.range(0, 30) : 0);
        }
        for (int h = 0; h < 4; ++h)
            p.set_knob("h" + std::to_string(h), (s64)((r.chance(1, 2) ? 1 : 0) | (r.chance(1, 6) ? 2 : 0) | (r.chance(1, 10) ? 4 : 0) |
                                                      (r.chance(1, 5) ? 8 : 0) | (r.below(16) << 8)));
        p.set_knob("ackbits", r.chance(1, 2) ? 0xFFFF : (s64)(r.next() & 0xFFFF));
        int ng = (int)r.range(2, 26);
        for (int i = 0; i < ng; ++i)
            p.add("g", {(s64)r.below(12), (s64)(r.next() & 0xFFFF), (s64)(r.chance(1, 2) ? (1u << r.below(16)) : (r.next() & 0xFFFF))});
        int nops = (int)r.range(3, tier.thorough ? 60 : 30);
        for (int i = 0; i < nops; ++i) {
            int x = (int)r.below(20);
            u16 bits = r.chance(2, 3) ? (u16)(1u << r.below(16)) : (u16)(r.next() & 0xFFFF);
            if (x < 8)
                p.add("step", {(s64)r.range(1, 14)});
            else if (x < 12)
                p.add("htrig", {(s64)bits});
            else if (x < 14)
                p.add("hack", {(s64)(r.chance(1, 2) ? 0xFFFF : bits)});
            else if (x < 15)
                p.add("hen", {(s64)r.below(3), (s64)(r.next() & 0xFFFF)});
            else if (x < 16)
                p.add("hsend", {(s64)r.below(3), (s64)(r.next() & 0xFFFF)});
            else if (x < 17)
                p.add("hdma", {});
            else if (x < 18)
                p.add("htimer", {(s64)r.below(2), (s64)r.below(4), (s64)r.range(0, 20)});
            else if (x < 19)
                p.add("hvec", {(s64)r.below(2), (s64)r.below(2)});
            else
                p.add("hmod3", {(s64)(r.next() & 0x0F8E)});
        }
        p.add("step", {(s64)r.range(4, 30)});
        return p;
    }

    Outcome execute(const Plan& plan) override {
        return plan.knob("mode", 0) == 1 ? exec_wiring(plan) : exec_main(plan);
    }

    // ---------------------------------------------------------------- main mode
    Outcome exec_main(const Plan& plan) {
        Outcome out;
        Hasher log;
        auto boxp = BoxPool::take(false);
        Box& b = *boxp;
        b.install_callbacks();
        b.reset();
        auto& t = *b.t;
        Program prog;
        build(plan, prog);
        b.load(prog.a.words);
        IcuCoreModel m;
        int virq = (int)(plan.knob("virq", 0) & 15);
        // host programs the ICU and timers; the model sees the same writes
        auto hw = [&](u16 off, u16 v) {
            t.MMIOWrite(off, v);
            m.mmio_write(off, v);
        };
        hw(0x206, (u16)plan.knob("en0", 0));
        hw(0x208, (u16)plan.knob("en1", 0));
        hw(0x20A, (u16)plan.knob("en2", 0));
        hw(0x20C, (u16)plan.knob("env", 0));
        for (u16 i = 0; i < 16; ++i) {
            hw((u16)(0x212 + i * 4), (u16)(((prog.hv[0] >> 16) & 3) | ((plan.knob("vctx", 0) & 1) << 15)));
            hw((u16)(0x214 + i * 4), (u16)(prog.hv[0] & 0xFFFF));
        }
        for (u16 i = 0; i < 2; ++i) {
            hw((u16)(0x24 + i * 0x10), (u16)plan.knob("t" + std::to_string(i) + "start", 0));
            hw((u16)(0x26 + i * 0x10), 0);
            u16 cfg = (u16)plan.knob("t" + std::to_string(i) + "cfg", 0);
            hw((u16)(0x20 + i * 0x10), (u16)(cfg ? (cfg | 0x400) : 0x0100)); // unused timers stay paused
        }
        m.pc = 0;
        u64 steps = 0;
        bool deferred_seen = false;
        std::string dead;
        const u32 vectors[5] = {0x0006, 0x000E, 0x0016, prog.hv[0], prog.hv[1]};
        auto line_of = [&](u32 pc) -> int {
            for (int i = 0; i < 5; ++i)
                if (pc == vectors[i])
                    return i < 3 ? i : 3;
            return -1;
        };
        // the timers are programmed through MMIO here, so their counter mirror registers are judged too (C15's clause,
        // reached through the register bindings that the component-level scenario does not use)
        auto timer_mirror_mismatch = [&](std::size_t si, const char* when) -> bool {
            for (u16 i = 0; i < 2; ++i) {
                u32 mirror = t.MMIORead((u16)(0x28 + i * 0x10)) | (u32)t.MMIORead((u16)(0x2A + i * 0x10)) << 16;
                if (mirror != m.timer[i].mirror) {
                    out.violate("C15.mirror", fmt("step %zu (%s, cycle %llu): timer %u counter mirror registers read 0x%08x, model 0x%08x (mode %d mu %d "
                                                  "counter 0x%x start 0x%x)", si, when, (unsigned long long)steps, i, mirror, m.timer[i].mirror,
                                                  m.timer[i].mode, (int)m.timer[i].mu, m.timer[i].counter, m.timer[i].start));
                    return true;
                }
            }
            return false;
        };
        auto compare_state = [&](std::size_t si, const char* when) {
            auto& r = b.regs();
            u16 req = t.MMIORead(0x200);
            log.add(r.pc);
            log.add(req);
            log.add((u64)(r.ie | r.ip[0] << 1 | r.ip[1] << 2 | r.ip[2] << 3 | r.ipv << 4));
            if (req != m.request)
                out.violate("C07.pending-bits", fmt("step %zu (%s, cycle %llu): ICU pending register 0x200 = 0x%04x, model 0x%04x", si, when,
                                                    (unsigned long long)steps, req, m.request));
            else if (r.ip[0] != m.ip[0] || r.ip[1] != m.ip[1] || r.ip[2] != m.ip[2] || r.ipv != m.ipv)
                out.violate("C07.pending-bits", fmt("step %zu (%s, cycle %llu): core pending ip=%d%d%d ipv=%d, model %d%d%d / %d", si, when,
                                                    (unsigned long long)steps, r.ip[0], r.ip[1], r.ip[2], r.ipv, (int)m.ip[0], (int)m.ip[1],
                                                    (int)m.ip[2], (int)m.ipv));
            else if (timer_mirror_mismatch(si, when))
                ;
            else if (r.ie != m.ie || r.im[0] != m.im[0] || r.im[1] != m.im[1] || r.im[2] != m.im[2] || r.imv != m.imv)
                out.violate("C07.ctx", fmt("step %zu (%s, cycle %llu, pc 0x%x): ie=%d im=%d%d%d imv=%d, model ie=%d im=%d%d%d imv=%d", si, when,
                                           (unsigned long long)steps, r.pc, r.ie, r.im[0], r.im[1], r.im[2], r.imv, (int)m.ie, (int)m.im[0],
                                           (int)m.im[1], (int)m.im[2], (int)m.imv));
        };

        for (std::size_t si = 0; si < plan.steps.size() && out.ok() && dead.empty() && !m.lost; ++si) {
            const Step& s = plan.steps[si];
            try {
                if (s.op == "g")
                    continue;
                if (s.op == "step") {
                    u64 n = (u64)std::min<s64>(s.arg(0), 64);
                    for (u64 k = 0; k < n && out.ok() && steps < 900; ++k) {
                        u16 r0 = b.regs().r[0], r1 = b.regs().r[1];
                        IcuCoreModel late = m, early = m;
                        late.step(prog.ins, r0, r1, false);
                        if (late.lost) {
                            m.lost = true;
                            break;
                        }
                        // a request that cannot be taken at once?
                        bool pend = late.ip[0] || late.ip[1] || late.ip[2] || late.ipv;
                        if (pend && late.entered < 0)
                            deferred_seen = true;
                        dead = b.run(1);
                        ++steps;
                        out.sim_cycles++;
                        if (!dead.empty())
                            break;
                        u32 rpc = b.regs().pc;
                        int ent_r = line_of(rpc);
                        if (late.pc == rpc) {
                            m = late;
                        } else {
                            early.step(prog.ins, r0, r1, true);
                            if (late.raised_in_step && early.pc == rpc) {
                                m = early; // delivered at the boundary of the raising instruction: allowed
                                out.probes["early_delivery_accepted"]++;
                            } else if (late.entered < 0 && ent_r >= 0) {
                                out.violate("C07.spurious", fmt("step %zu cycle %llu: core entered the handler of %s (pc 0x%x) but no enabled request is "
                                                                "pending for it (model: ie=%d im=%d%d%d imv=%d ip=%d%d%d ipv=%d rep=%d)",
                                                                si, (unsigned long long)steps, ent_r < 3 ? fmt("int%d", ent_r).c_str() : "the vectored line",
                                                                rpc, (int)m.ie, (int)m.im[0], (int)m.im[1], (int)m.im[2], (int)m.imv, (int)late.ip[0],
                                                                (int)late.ip[1], (int)late.ip[2], (int)late.ipv, (int)late.rep_on));
                            } else if (late.entered >= 0 && ent_r < 0) {
                                out.violate("C07.missed", fmt("step %zu cycle %llu: a request for %s is pending and enabled at this boundary but the core "
                                                              "continued at pc 0x%x (expected entry at 0x%x)",
                                                              si, (unsigned long long)steps, late.entered < 3 ? fmt("int%d", late.entered).c_str() : "the vectored line",
                                                              rpc, late.pc));
                            } else if (late.entered >= 0 && ent_r >= 0) {
                                out.violate("C07.priority", fmt("step %zu cycle %llu: core entered pc 0x%x, the highest-priority eligible line is %d "
                                                                "(expected 0x%x)", si, (unsigned long long)steps, rpc, late.entered, late.pc));
                            } else {
                                out.violate("C07.retaddr", fmt("step %zu cycle %llu: core continues at pc 0x%x, expected 0x%x", si,
                                                               (unsigned long long)steps, rpc, late.pc));
                            }
                            break;
                        }
                        if (m.entered >= 0) {
                            // return address on the stack, both word orders
                            auto& r = b.regs();
                            u16 w0 = t.DataRead(r.sp, true), w1 = t.DataRead((u16)(r.sp + 1), true);
                            u32 ret = r.cpc == 1 ? (w0 | (u32)w1 << 16) : (w1 | (u32)w0 << 16);
                            out.probes[fmt("entry_line%d", m.entered)]++;
                            if (ret != m.pushed) {
                                out.violate("C07.retaddr", fmt("step %zu cycle %llu: entry to line %d pushed return address 0x%x, the next unexecuted "
                                                               "instruction is at 0x%x (cpc=%d)", si, (unsigned long long)steps, m.entered, ret,
                                                               m.pushed, r.cpc));
                                break;
                            }
                        }
                        compare_state(si, "after instruction");
                        Hasher sg;
                        sg.add(m.ie);
                        sg.add((u64)(m.ip[0] | m.ip[1] << 1 | m.ip[2] << 2 | m.ipv << 3));
                        sg.add((u64)(m.im[0] | m.im[1] << 1 | m.im[2] << 2 | m.imv << 3));
                        sg.add((u64)(m.entered + 1));
                        sg.add(m.rep_on);
                        sg.add(m.stack.size() > 3 ? 3 : m.stack.size());
                        out.state_sigs.insert(sg.h);
                    }
                    continue;
                }
                // ---- host events at this boundary
                out.faults_configured["host-event"]++;
                out.faults_fired["host-event"]++;
                if (s.op == "htrig") {
                    out.faults_configured["irq-inject"]++;
                    u16 bits = (u16)s.arg(0);
                    if (bits & (m.en[0] | m.en[1] | m.en[2] | m.env))
                        out.faults_fired["irq-inject"]++;
                    hw(0x204, bits);
                } else if (s.op == "hack") {
                    hw(0x202, (u16)s.arg(0));
                } else if (s.op == "hen") {
                    hw((u16)(0x206 + 2 * (s.arg(0) % 3)), (u16)s.arg(1));
                } else if (s.op == "hsend") {
                    t.SendData((u8)(s.arg(0) % 3), (u16)s.arg(1));
                    m.trigger(1 << 14);
                    out.probes["source_apbp"]++;
                } else if (s.op == "hdma") {
                    t.MMIOWrite(0x1BE, 0);
                    t.MMIOWrite(0x1C0, 0x1000);
                    t.MMIOWrite(0x1C2, 0);
                    t.MMIOWrite(0x1C4, 0x1100);
                    t.MMIOWrite(0x1C6, 0);
                    t.MMIOWrite(0x1C8, 2);
                    t.MMIOWrite(0x1CA, 1);
                    t.MMIOWrite(0x1CC, 1);
                    t.MMIOWrite(0x1CE, 1);
                    t.MMIOWrite(0x1D0, 1);
                    t.MMIOWrite(0x1DA, 0);
                    t.MMIOWrite(0x1DE, 0x40C0);
                    m.trigger(1 << 15);
                    out.probes["source_dma"]++;
                } else if (s.op == "htimer") {
                    u16 i = (u16)(s.arg(0) & 1);
                    hw((u16)(0x24 + i * 0x10), (u16)s.arg(2));
                    hw((u16)(0x26 + i * 0x10), 0);
                    hw((u16)(0x20 + i * 0x10), timer_cfg_word((int)(s.arg(1) & 3), false, true, true));
                    out.probes["source_timer_programmed"]++;
                } else if (s.op == "hvec") {
                    hw((u16)(0x214 + 4 * virq), (u16)prog.hv[s.arg(0) & 1]);
                    hw((u16)(0x212 + 4 * virq), (u16)(((prog.hv[s.arg(0) & 1] >> 16) & 3) | ((s.arg(1) & 1) << 15)));
                } else if (s.op == "hmod3") {
                    // the host cannot write mod3; it is changed through the register-state accessor the way a
                    // debugger would: used only to mask/unmask at arbitrary boundaries
                    continue;
                } else {
                    continue;
                }
                compare_state(si, "after host event");
            } catch (const VerifAssert& e) {
                dead = e.file + ":" + std::to_string(e.line);
            }
        }
        if (!dead.empty()) {
            out.aborted = true;
            out.abort_site = dead;
        }
        if (m.lost)
            out.probes["model_lost"]++;
        u64 total = m.entries[0] + m.entries[1] + m.entries[2] + m.entries[3];
        out.probes["timer_irqs"] += m.timer[0].irqs + m.timer[1].irqs;
        out.nontrivial = total > 0 && deferred_seen;
        Hasher sg;
        for (int i = 0; i < 4; ++i)
            sg.add(m.entries[i] > 3 ? 3 : m.entries[i]);
        out.sig = sg.h;
        out.hash = log.h;
        return out;
    }

    // ---------------------------------------------------------------- wiring mode: each source raises exactly its documented IRQ
    Outcome exec_wiring(const Plan& plan) {
        Outcome out;
        Hasher log;
        auto boxp = BoxPool::take(false);
        Box& b = *boxp;
        b.install_callbacks();
        b.reset();
        auto& t = *b.t;
        b.poke_prog(0, op::BRR_SELF);
        for (u16 o = 0x206; o <= 0x20C; o += 2)
            t.MMIOWrite(o, 0);
        // both timers paused
        t.MMIOWrite(0x20, 0x0100);
        t.MMIOWrite(0x30, 0x0100);
        std::string dead;
        int judged = 0;
        for (std::size_t si = 0; si < plan.steps.size() && out.ok() && dead.empty(); ++si) {
            const Step& s = plan.steps[si];
            if (s.op != "src")
                continue;
            t.MMIOWrite(0x202, 0xFFFF);
            u16 expect = 0;
            const char* name = "";
            try {
                switch (s.arg(0) % 8) {
                case 0:
                case 1: {
                    int i = (int)(s.arg(0) % 8);
                    name = i == 0 ? "timer 0" : "timer 1";
                    expect = i == 0 ? 1 << 10 : 1 << 9;
                    t.MMIOWrite((u16)(0x24 + i * 0x10), (u16)(2 + s.arg(1) % 5));
                    t.MMIOWrite((u16)(0x26 + i * 0x10), 0);
                    t.MMIOWrite((u16)(0x20 + i * 0x10), timer_cfg_word(0, false, true, true));
                    dead = b.run(12);
                    out.sim_cycles += 12;
                    t.MMIOWrite((u16)(0x20 + i * 0x10), 0x0100);
                    break;
                }
                case 2:
                case 3: {
                    int i = (int)(s.arg(0) % 8) - 2;
                    name = i == 0 ? "audio port 0" : "audio port 1";
                    expect = i == 0 ? 1 << 11 : 1 << 12; // icu.md: BTDMP0 -> IRQ 0xB, BTDMP1 -> IRQ 0xC
                    t.MMIOWrite((u16)(0x2CA + i * 0x80), 1);
                    t.MMIOWrite((u16)(0x2C6 + i * 0x80), (u16)s.arg(1));
                    t.MMIOWrite((u16)(0x2BE + i * 0x80), 1);
                    dead = b.run(4100);
                    out.sim_cycles += 4100;
                    t.MMIOWrite((u16)(0x2BE + i * 0x80), 0);
                    break;
                }
                case 4:
                    name = "mailbox send";
                    expect = 1 << 14;
                    t.SendData((u8)(s.arg(1) % 3), (u16)s.arg(1));
                    break;
                case 5:
                    name = "semaphore set";
                    expect = 1 << 14;
                    t.MaskSemaphore(0);
                    t.MMIOWrite(0x0CE, 0);
                    t.MMIOWrite(0x0D0, 0xFFFF);
                    t.SetSemaphore((u16)(s.arg(1) | 1));
                    break;
                case 6:
                    name = "DMA completion";
                    expect = 1 << 15;
                    t.MMIOWrite(0x1BE, (u16)(s.arg(1) & 7));
                    t.MMIOWrite(0x1C0, 0x1000);
                    t.MMIOWrite(0x1C2, 0);
                    t.MMIOWrite(0x1C4, 0x1100);
                    t.MMIOWrite(0x1C6, 0);
                    t.MMIOWrite(0x1C8, 1);
                    t.MMIOWrite(0x1CA, 1);
                    t.MMIOWrite(0x1CC, 1);
                    t.MMIOWrite(0x1DA, 0);
                    t.MMIOWrite(0x1DE, 0x40C0);
                    break;
                default:
                    name = "software trigger";
                    expect = (u16)s.arg(1);
                    t.MMIOWrite(0x204, expect);
                    break;
                }
            } catch (const VerifAssert& e) {
                dead = e.file + ":" + std::to_string(e.line);
            }
            if (!dead.empty())
                break;
            u16 req = t.MMIORead(0x200);
            log.add(req);
            ++judged;
            out.probes[std::string("wiring_") + std::to_string(s.arg(0) % 8)]++;
            if (req != expect)
                out.violate("C07.wiring", fmt("step %zu: %s raised IRQ bits 0x%04x, documented wiring is 0x%04x", si, name, req, expect));
            Hasher sg;
            sg.add((u64)(s.arg(0) % 8));
            out.state_sigs.insert(sg.h ^ 0x77);
        }
        if (!dead.empty()) {
            out.aborted = true;
            out.abort_site = dead;
        }
        out.nontrivial = judged >= 2;
        out.sig = 0x1000 + (u64)judged;
        out.hash = log.h;
        return out;
    }
};

Registrar reg(new C07);

} // namespace
} // namespace sim
