// C15 — timers count, fire and reload exactly per mode; fast-forward (Skip) is exact.
// Component level: real Timer + CoreTiming, a real single-step twin, and TimerModel.
#include "../core/common.h"
#include "../models/timer_model.h"
#include "core_timing.h"
#include "timer.h"

namespace sim {
namespace {

const u32 kValues[] = {0, 1, 2, 3, 5, 7, 0xFFFF, 0x10000, 0x10001, 0xFFFFFFFEu, 0xFFFFFFFFu};

struct RealTimer {
    Teakra::CoreTiming ct;
    Teakra::Timer t{ct};
    u64 irqs = 0;
    RealTimer() {
        t.SetInterruptHandler([this]() { ++irqs; });
    }
    void cfg(int mode, bool pause, bool mu) {
        t.count_mode = static_cast<Teakra::Timer::CountMode>(mode);
        t.pause = pause;
        t.update_mmio = mu;
        t.scale = 0;
    }
    void start(u32 v) {
        t.start_low = (u16)(v & 0xFFFF);
        t.start_high = (u16)(v >> 16);
    }
    u32 mirror() const {
        return ((u32)t.counter_high << 16) | t.counter_low;
    }
};

int counter_class(u32 c) {
    if (c <= 3)
        return (int)c;
    if (c < 0x10000)
        return 4;
    if (c == 0xFFFFFFFFu)
        return 6;
    return 5;
}

class C15 : public Scenario {
public:
    const char* prop() const override {
        return "C15";
    }
    const char* components_real() const override {
        return "Timer (src/timer.cpp), CoreTiming (src/core_timing.h)";
    }
    const char* components_stub() const override {
        return "interrupt handler = counter; MMIO register file (fields set directly, as tests/timer.cpp does)";
    }
    const char* nontrivial_rule() const override {
        return "a plan is non-trivial if at least one Skip(k) was applied while the timer could move and at least one "
               "state comparison against the model was made; distinct = distinct (plan shape hash, final state signature)";
    }

    Plan generate(u64 seed, const Tier& tier) override {
        Rng r(seed);
        Plan p;
        int n = (int)r.range(3, tier.thorough ? 60 : 24);
        // swarm: per-run weights
        int w_skip = (int)r.range(1, 6), w_tick = (int)r.range(1, 4), w_cfg = (int)r.range(1, 3),
            w_start = (int)r.range(0, 3), w_restart = (int)r.range(0, 3), w_event = (int)r.range(0, 2);
        bool small_values = r.chance(1, 2);
        auto value = [&]() -> s64 {
            if (small_values && r.chance(3, 4))
                return (s64)r.below(12);
            if (r.chance(2, 3))
                return (s64)r.pick(kValues);
            return (s64)(r.next() & 0xFFFFFFFFu);
        };
        // always begin with a configuration so the run is about a defined mode
        p.add("cfg", {(s64)r.below(4), (s64)r.chance(1, 8), (s64)r.chance(1, 2)});
        p.add("start", {value()});
        if (r.chance(3, 4))
            p.add("restart");
        for (int i = 0; i < n; ++i) {
            int tot = w_skip + w_tick + w_cfg + w_start + w_restart + w_event;
            int x = (int)r.below((u64)tot);
            if ((x -= w_skip) < 0)
                p.add("skip", {(s64)r.below(6), (s64)(r.next() & 0x7FFFFFFFFFFFll)});
            else if ((x -= w_tick) < 0)
                p.add("tick", {(s64)r.range(1, 12)});
            else if ((x -= w_cfg) < 0)
                p.add("cfg", {(s64)r.below(4), (s64)r.chance(1, 6), (s64)r.chance(1, 2)});
            else if ((x -= w_start) < 0)
                p.add("start", {value()});
            else if ((x -= w_restart) < 0)
                p.add("restart");
            else
                p.add("event");
        }
        return p;
    }

    Outcome execute(const Plan& plan) override {
        Outcome out;
        Hasher log;
        RealTimer a; // receives Skip
        RealTimer b; // single-step twin: always Tick
        TimerModel m;
        bool skipped_movable = false;
        u64 comparisons = 0;
        u64 last_kclass = 0;

        auto compare = [&](const char* where, std::size_t step_index) {
            ++comparisons;
            log.add(a.t.counter);
            log.add(a.mirror());
            log.add(a.irqs);
            if (!out.ok())
                return;
            if (a.t.counter != m.counter)
                out.violate(where, fmt("step %zu: counter real=0x%x model=0x%x (mode=%d pause=%d mu=%d start=0x%x)",
                                       step_index, a.t.counter, m.counter, m.mode, (int)m.pause, (int)m.mu, m.start));
            else if (a.irqs != m.irqs)
                out.violate("C15.irq-count", fmt("step %zu: interrupts real=%llu model=%llu", step_index,
                                                 (unsigned long long)a.irqs, (unsigned long long)m.irqs));
            else if (a.mirror() != m.mirror)
                out.violate("C15.mirror", fmt("step %zu: mirror real=0x%x model=0x%x counter=0x%x mu=%d", step_index,
                                              a.mirror(), m.mirror, m.counter, (int)m.mu));
        };
        auto compare_twin = [&](std::size_t step_index, u64 k) {
            if (!out.ok())
                return;
            if (a.t.counter != b.t.counter || a.irqs != b.irqs || a.mirror() != b.mirror())
                out.violate("C15.skip-ne-ticks",
                            fmt("step %zu: Skip(%llu) gave counter=0x%x mirror=0x%x irqs=%llu, %llu single ticks gave "
                                "counter=0x%x mirror=0x%x irqs=%llu",
                                step_index, (unsigned long long)k, a.t.counter, a.mirror(), (unsigned long long)a.irqs,
                                (unsigned long long)k, b.t.counter, b.mirror(), (unsigned long long)b.irqs));
        };

        try {
            for (std::size_t si = 0; si < plan.steps.size() && out.ok(); ++si) {
                const Step& s = plan.steps[si];
                if (s.op == "cfg") {
                    int mode = (int)(s.arg(0) & 3);
                    bool pause = s.arg(1) & 1, mu = s.arg(2) & 1;
                    a.cfg(mode, pause, mu);
                    b.cfg(mode, pause, mu);
                    m.mode = mode;
                    m.pause = pause;
                    m.mu = mu;
                    compare("C15.tick", si);
                } else if (s.op == "start") {
                    u32 v = (u32)s.arg(0);
                    a.start(v);
                    b.start(v);
                    m.start = v;
                } else if (s.op == "restart") {
                    a.t.Restart();
                    b.t.Restart();
                    m.restart();
                    compare("C15.tick", si);
                } else if (s.op == "event") {
                    a.t.TickEvent();
                    b.t.TickEvent();
                    m.event_write();
                    compare("C15.tick", si);
                } else if (s.op == "tick") {
                    u64 n = (u64)std::min<s64>(s.arg(0), 64);
                    for (u64 i = 0; i < n && out.ok(); ++i) {
                        a.ct.Tick();
                        b.ct.Tick();
                        m.tick();
                        out.sim_cycles++;
                        compare("C15.tick", si);
                    }
                } else if (s.op == "skip") {
                    out.faults_configured["fast-forward"]++;
                    u64 horizon = a.t.GetMaxSkip();
                    u64 n = m.next_irq();
                    log.add(horizon);
                    // the reported horizon never skips over an interrupt
                    if (n != ~0ull && (horizon == Teakra::CoreTiming::Callbacks::Infinity || horizon > n - 1)) {
                        out.violate("C15.horizon-too-far",
                                    fmt("step %zu: reported horizon %llu but the model raises an interrupt on tick %llu "
                                        "(mode=%d counter=0x%x start=0x%x)",
                                        si, (unsigned long long)horizon, (unsigned long long)n, m.mode, m.counter, m.start));
                        break;
                    }
                    bool inf = horizon == Teakra::CoreTiming::Callbacks::Infinity;
                    u64 cap = inf ? (m.can_move() ? 5000ull : (1ull << 40)) : horizon;
                    u64 k;
                    switch (s.arg(0) % 6) {
                    case 0:
                        k = 0;
                        break;
                    case 1:
                        k = std::min<u64>(1, cap);
                        break;
                    case 2:
                        k = cap;
                        break;
                    case 3:
                        k = cap ? cap - 1 : 0;
                        break;
                    case 4:
                        k = (u64)s.arg(1) % (std::min<u64>(cap, 40) + 1);
                        break;
                    default:
                        k = (u64)s.arg(1) % (cap + 1);
                        break;
                    }
                    // the single-step twin must be able to follow: bound its work
                    u64 twin_ticks = k;
                    bool twin_follow = k <= 70000;
                    if (k == 0)
                        out.probes["skip_len_0"]++;
                    if (m.counter == 0)
                        out.probes["timer_at_zero_when_skipped"]++;
                    if (m.counter == 0 && m.mode == TimerModel::Auto && k == 0)
                        out.probes["skip0_at_zero_autorestart"]++;
                    if (inf)
                        out.probes["horizon_infinite"]++;
                    if (!inf && k == horizon && k > 0)
                        out.probes["skip_full_horizon"]++;
                    if (m.mu && m.mirror != m.counter)
                        out.probes["mirror_stale_at_skip"]++;
                    if (m.can_move() && k > 0) {
                        out.faults_fired["fast-forward"]++;
                    }
                    if (m.can_move())
                        skipped_movable = true;
                    u64 irq_before = m.irqs;
                    a.t.Skip(k);
                    m.advance(k);
                    if (m.can_move() || k <= 70000)
                        out.sim_cycles += std::min<u64>(k, 70000);
                    if (m.irqs != irq_before) {
                        // cannot happen if the horizon check above passed; defensive
                        out.violate("C15.horizon-too-far", fmt("step %zu: model fired inside skip of %llu", si,
                                                               (unsigned long long)k));
                        break;
                    }
                    if (twin_follow) {
                        for (u64 i = 0; i < twin_ticks; ++i)
                            b.ct.Tick();
                    } else {
                        // too long to single-step: resynchronise the twin from the model-checked state below
                    }
                    last_kclass = k == 0 ? 0 : k == 1 ? 1 : (!inf && k == horizon) ? 2 : 3;
                    Hasher sg;
                    sg.add((u64)m.mode);
                    sg.add(m.pause);
                    sg.add(m.mu);
                    sg.add((u64)counter_class(m.counter));
                    sg.add((u64)counter_class(m.start));
                    sg.add(last_kclass);
                    out.state_sigs.insert(sg.h);
                    // first the real twin (pure differential), then the model
                    if (twin_follow)
                        compare_twin(si, k);
                    if (out.ok()) {
                        // report model disagreements after a skip under the skip class
                        ++comparisons;
                        log.add(a.t.counter);
                        log.add(a.mirror());
                        log.add(a.irqs);
                        if (a.t.counter != m.counter || a.irqs != m.irqs || a.mirror() != m.mirror)
                            out.violate("C15.skip-ne-ticks",
                                        fmt("step %zu: Skip(%llu) gave counter=0x%x mirror=0x%x irqs=%llu; model after %llu "
                                            "ticks: counter=0x%x mirror=0x%x irqs=%llu (mode=%d mu=%d start=0x%x)",
                                            si, (unsigned long long)k, a.t.counter, a.mirror(),
                                            (unsigned long long)a.irqs, (unsigned long long)k, m.counter, m.mirror,
                                            (unsigned long long)m.irqs, m.mode, (int)m.mu, m.start));
                    }
                    if (!twin_follow) {
                        b.t.counter = a.t.counter;
                        b.t.counter_high = a.t.counter_high;
                        b.t.counter_low = a.t.counter_low;
                        b.irqs = a.irqs;
                    }
                }
            }
        } catch (const VerifAssert& e) {
            // No configuration generated here is outside the documented modes, so an assertion
            // inside the timer (e.g. "counter > ticks" in Skip) is a property violation.
            out.violate("C15.assert", "teakra ASSERT(" + e.expr + ") at " + e.file + ":" + std::to_string(e.line));
        }
        if (m.irqs)
            out.probes["irq_fired"] += m.irqs;
        out.nontrivial = skipped_movable && comparisons > 0;
        Hasher sg;
        sg.add((u64)m.mode);
        sg.add((u64)counter_class(m.counter));
        sg.add(m.irqs > 3 ? 3 : m.irqs);
        sg.add(last_kclass);
        out.sig = sg.h;
        out.hash = log.h;
        return out;
    }
};

Registrar reg(new C15);

} // namespace
} // namespace sim
