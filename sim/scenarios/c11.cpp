// C11 — DSP-side and host-side views of program and data memory are the same bytes.
// Parties interleaved at arbitrary points: host program/data accessors (16-bit and 32-bit-address forms,
// with and without MMIO bypass), the raw memory pointer, guest loads/stores/fetches executed by Run,
// and DSP-space DMA — all judged against one flat byte model with the documented map.
#include "../core/box.h"
#include "../guest/firmware.h"

namespace sim {
namespace {

class C11 : public Scenario {
public:
    const char* prop() const override {
        return "C11";
    }
    const char* components_real() const override {
        return "SharedMemory, MemoryInterface, MemoryInterfaceUnit (MMIO window, z page), Teakra facade accessors, interpreter "
               "loads/stores/fetch, Dma (DSP space)";
    }
    const char* components_stub() const override {
        return "host CPU (plan steps); flat 0x80000-byte reference memory";
    }
    const char* nontrivial_rule() const override {
        return "non-trivial if at least one value written by one party was read back by a different party (host accessor, raw "
               "pointer, guest instruction, fetch or DMA) and at least one full-memory comparison was made; distinct = distinct "
               "(plan shape hash, signature of party pairs exercised)";
    }
    std::pair<int, int> pool_need() const override {
        return {1, 1};
    }
    std::vector<std::pair<std::string, s64>> simplest_knobs() const override {
        return {{"user_mem", 0}};
    }

    Plan generate(u64 seed, const Tier& tier) override {
        Rng r(seed);
        Plan p;
        p.set_knob("user_mem", (s64)r.chance(1, 4));
        const bool paging = r.chance(1, 3); // a third of the plans also switch the paging mode and the X/Y pages
        int n = (int)r.range(4, tier.thorough ? 200 : 70);
        // a few hot cells so that different parties meet on the same addresses
        std::vector<u32> hot;
        for (int i = 0; i < 6; ++i)
            hot.push_back((u32)(r.chance(1, 2) ? r.below(0x10000) : r.below(0x20000)));
        auto data_addr = [&]() -> s64 { // data word address relative to 0x20000 (17 bits: both banks)
            if (r.chance(2, 3))
                return (s64)hot[r.below(hot.size())];
            switch (r.below(5)) {
            case 0:
                return (s64)r.below(8);
            case 1:
                return (s64)(0xFFF8 + r.below(16));
            case 2:
                return (s64)(0x1FFF8 + r.below(8));
            case 3:
                return (s64)(0x7FF8 + r.below(0x810));
            default:
                return (s64)r.below(0x20000);
            }
        };
        for (int i = 0; i < n; ++i) {
            u16 v = (u16)(0x100 + i * 37 + (r.next() & 0xF000)); // mostly distinct values
            int x = (int)r.below(100);
            if (x < 8)
                p.add("pw", {(s64)(r.chance(1, 2) ? 0x20000 + data_addr() : r.below(0x20000)), v});
            else if (x < 14)
                p.add("pr", {(s64)(r.chance(1, 2) ? 0x20000 + data_addr() : r.below(0x20000))});
            else if (x < 24)
                p.add("dw", {data_addr() & 0xFFFF, v, (s64)r.chance(1, 3)});
            else if (x < 32)
                p.add("dr", {data_addr() & 0xFFFF, 0, (s64)r.chance(1, 3)});
            else if (x < 38)
                p.add("aw", {(s64)(data_addr() | (r.chance(1, 4) ? (r.next() & 0xFFFE0000) : 0)), v});
            else if (x < 44)
                p.add("ar", {(s64)(data_addr() | (r.chance(1, 4) ? (r.next() & 0xFFFE0000) : 0))});
            else if (x < 49)
                p.add("rawb", {(s64)((0x20000 + data_addr()) * 2 + r.below(2)), (s64)(v & 0xFF)});
            else if (x < 54)
                p.add("rawr", {(s64)(0x20000 + data_addr())});
            else if (x < 66)
                p.add("gst", {(s64)r.below(5), data_addr() & 0xFFFF, v});
            else if (x < 78)
                p.add("gld", {(s64)r.below(5), data_addr() & 0xFFFF});
            else if (x < 81)
                // 32-bit moves (mova through the reset ar0/ar1 configuration: high half at [r0], low half at [r0+1]); arg0 aims
                // the pair across the lower / upper edge of the MMIO window, where the two halves take different routes
                p.add(r.chance(1, 2) ? "gst2" : "gld2", {(s64)r.below(4), data_addr() & 0xFFFF, v, (s64)(r.next() & 0xFFFF)});
            else if (x < 84)
                p.add("fetch", {(s64)(r.chance(1, 2) ? 0x20000 + (data_addr() & 0x1FFF0) : 0x2000 + r.below(0x1D000)), (s64)r.below(3), v});
            else if (x < 88)
                p.add("dma", {data_addr(), data_addr(), (s64)r.range(1, 6)});
            else if (x < 91 && paging && r.chance(1, 2)) {
                switch (r.below(3)) {
                case 0:
                    p.add("pmode", {(s64)r.below(2)});
                    break;
                case 1:
                    p.add("xpage", {(s64)r.below(2)});
                    break;
                default:
                    p.add("ypage", {(s64)r.below(2)});
                    break;
                }
            } else if (x < 91)
                p.add("zpage", {(s64)r.below(2)});
            else if (x < 94) {
                const u16 bases[] = {0x8000, 0x0000, 0x0400, 0x4000, 0xF800, 0xFC00, 0x7C00};
                p.add("reloc", {(s64)r.pick(bases)});
            } else if (x < 98)
                p.add("mmiow", {(s64)r.pick(std::vector<int>{0x24, 0x26, 0x34, 0x1C0, 0x1C8, 0x206, 0x2A2, 0x214}), v});
            else
                p.add("run", {(s64)r.range(0, 30)});
        }
        return p;
    }

    Outcome execute(const Plan& plan) override {
        Outcome out;
        Hasher log;
        bool user_mem = plan.knob("user_mem", 0) != 0;
        auto boxp = BoxPool::take(user_mem);
        Box& b = *boxp;
        b.install_callbacks();
        if (user_mem) {
            // a pattern the emulator must not rely on; Reset() clears it
            std::memset(b.user_memory.data(), 0x5C, 0x80000);
            if (b.fresh_mem() != b.user_memory.data() || b.mem() != b.user_memory.data())
                out.violate("C11.read-mismatch", "GetDspMemory() does not return the user-supplied buffer");
        }
        b.reset();
        auto& t = *b.t;
        std::vector<u8> model(0x80000, 0);
        u16 base = 0x8000;
        int z = 0;
        // paging mode 1 (miu.md): X memory (the low x_size K-words, reset value 0x20) is on XPAGE, Y memory (the top y_size
        // K-words, reset value 0x1E) on YPAGE. What lies between (Z memory, 0x8000..0x87FF with the reset sizes) is not judged
        // in mode 1: the document gives it to ZPAGE, the emulator to YPAGE, and nothing settles which is right.
        int pgm = 0, xp = 0, yp = 0;
        std::string dead;
        u64 cross_reads = 0, compares = 0;
        Hasher pairs;
        // who wrote each word last (party id), to count cross-party reads
        std::vector<u8> writer(0x40000, 0);
        enum Party : u8 { None, HostProg, HostData, HostA32, Raw, Guest, Fetch, DmaP };

        auto mword = [&](u32 w) -> u16 { return (u16)(model[w * 2] | model[w * 2 + 1] << 8); };
        auto mset = [&](u32 w, u16 v, u8 who) {
            model[w * 2] = (u8)v;
            model[w * 2 + 1] = (u8)(v >> 8);
            writer[w] = who;
        };
        auto data_flat = [&](u16 a) -> u32 {
            if (!pgm)
                return 0x20000u + (u32)z * 0x10000u + a;
            return 0x20000u + (u32)(a < 0x8000 ? xp : yp) * 0x10000u + a;
        };
        auto judged = [&](u16 a) { return !pgm || a < 0x8000 || a >= 0x8800; };
        auto in_mmio = [&](u16 a) { return a >= base && (u32)a < (u32)base + 0x800; };
        auto check_read = [&](std::size_t si, const char* what, u32 w, u16 got, u8 who) {
            log.add(got);
            if (writer[w] != None && writer[w] != who) {
                ++cross_reads;
                pairs.add((u64)writer[w] * 16 + who);
            }
            if (got != mword(w))
                out.violate(who == Fetch ? "C11.fetch" : "C11.read-mismatch",
                            fmt("step %zu: %s of word 0x%x (bytes 0x%x,0x%x) returned 0x%04x, memory holds 0x%04x (last writer party %d, "
                                "z page %d, MMIO base 0x%04x)",
                                si, what, w, w * 2, w * 2 + 1, got, mword(w), (int)writer[w], z, base));
        };
        auto compare_all = [&](std::size_t si) {
            ++compares;
            if (std::memcmp(b.mem(), model.data(), 0x80000) == 0)
                return;
            for (u32 w = 0; w < 0x40000; ++w) {
                u16 rv = b.peek_prog(w);
                if (rv != mword(w)) {
                    out.violate("C11.stray-write", fmt("step %zu (%s): word 0x%x holds 0x%04x, expected 0x%04x", si,
                                                       si < plan.steps.size() ? plan.steps[si].op.c_str() : "?", w, rv, mword(w)));
                    return;
                }
            }
        };
        // guest stub runner: program at 0x1F00.. (program space, below the data view), returns r0 / a0l
        auto run_stub = [&](Asm& a, int cycles) {
            for (auto& kv : a.words) {
                b.poke_prog(kv.first, kv.second);
                mset(kv.first, kv.second, Raw);
            }
            b.regs().pc = 0x1F00;
            dead = b.run((u64)cycles);
            out.sim_cycles += (u64)cycles;
        };

        for (std::size_t si = 0; si < plan.steps.size() && out.ok() && dead.empty(); ++si) {
            const Step& s = plan.steps[si];
            try {
                if (s.op == "pw") {
                    u32 a = (u32)(s.arg(0) & 0x3FFFF);
                    t.ProgramWrite(a, (u16)s.arg(1));
                    mset(a, (u16)s.arg(1), HostProg);
                } else if (s.op == "pr") {
                    u32 a = (u32)(s.arg(0) & 0x3FFFF);
                    check_read(si, "ProgramRead", a, t.ProgramRead(a), HostProg);
                } else if (s.op == "dw") {
                    u16 a = (u16)s.arg(0);
                    bool bypass = s.arg(2) != 0;
                    if ((in_mmio(a) && !bypass) || !judged(a))
                        continue; // handled by the mmiow op
                    t.DataWrite(a, (u16)s.arg(1), bypass);
                    mset(data_flat(a), (u16)s.arg(1), HostData);
                    if (in_mmio(a))
                        out.probes["bypass_access_inside_window"]++;
                } else if (s.op == "dr") {
                    u16 a = (u16)s.arg(0);
                    bool bypass = s.arg(2) != 0;
                    if ((in_mmio(a) && !bypass) || !judged(a))
                        continue;
                    if (pgm)
                        out.probes["paged_mode1_access"]++;
                    check_read(si, bypass ? "DataRead(bypass)" : "DataRead", data_flat(a), t.DataRead(a, bypass), HostData);
                } else if (s.op == "aw") {
                    u32 a = (u32)s.arg(0);
                    t.DataWriteA32(a, (u16)s.arg(1));
                    mset(0x20000u + (a & 0x1FFFF), (u16)s.arg(1), HostA32);
                } else if (s.op == "ar") {
                    u32 a = (u32)s.arg(0);
                    check_read(si, "DataReadA32", 0x20000u + (a & 0x1FFFF), t.DataReadA32(a), HostA32);
                } else if (s.op == "rawb") {
                    u32 ba = (u32)(s.arg(0) & 0x7FFFF);
                    b.mem()[ba] = (u8)s.arg(1);
                    model[ba] = (u8)s.arg(1);
                    writer[ba / 2] = Raw;
                } else if (s.op == "rawr") {
                    u32 w = (u32)(s.arg(0) & 0x3FFFF);
                    check_read(si, "raw pointer read", w, b.peek_prog(w), Raw);
                } else if (s.op == "gst" || s.op == "gld") {
                    int form = (int)(s.arg(0) % 5);
                    u16 a = (u16)s.arg(1);
                    u16 v = (u16)s.arg(2);
                    bool store = s.op == "gst";
                    if (in_mmio(a) || (form == 4 && (in_mmio((u16)(a + 1)) || in_mmio((u16)(a - 1)))) || !judged(a))
                        continue; // window accesses are judged by mmiow
                    if (pgm)
                        out.probes["paged_mode1_access"]++;
                    Asm g;
                    g.org(0x1F00);
                    int cycles = 0;
                    switch (form) {
                    case 0: // [rN]
                        if (store) {
                            g.store_imm(a, v);
                            cycles = 4;
                        } else {
                            g.load_r0(a);
                            cycles = 3;
                        }
                        break;
                    case 1: // [imm16] through a0
                        if (store) {
                            g.mov_imm(op::A0L, v).store_a0l_abs(a);
                            cycles = 3;
                        } else {
                            g.load_a0_abs(a);
                            cycles = 2;
                        }
                        break;
                    case 2: // [page:imm8]
                        g.load_page((u8)(a >> 8));
                        if (store) {
                            g.mov_imm(op::R0, v).store_r0_page((u8)a);
                            cycles = 4;
                        } else {
                            g.load_r0_page((u8)a);
                            cycles = 3;
                        }
                        break;
                    case 3: { // [r7+imm16]
                        u16 r7 = (u16)(a - 0x0123);
                        g.mov_imm(op::R7, r7);
                        if (store) {
                            g.mov_imm(op::A0L, v).w2(0xD49C, 0x0123);
                            cycles = 4;
                        } else {
                            g.w2(0xD498, 0x0123);
                            cycles = 3;
                        }
                        break;
                    }
                    default: // stack: push writes [sp-1], pop reads [sp]
                        if (store) {
                            g.mov_imm(op::SP, (u16)(a + 1)).mov_imm(op::R0, v).w(op::PUSH_R0);
                            cycles = 4;
                        } else {
                            g.mov_imm(op::SP, a).w(op::POP_R0);
                            cycles = 3;
                        }
                        break;
                    }
                    g.idle();
                    run_stub(g, cycles);
                    if (!dead.empty())
                        break;
                    out.probes[std::string(store ? "guest_store_form" : "guest_load_form") + std::to_string(form)]++;
                    if (store) {
                        mset(data_flat(a), v, Guest);
                    } else {
                        u16 got = (form == 1 || form == 3) ? (u16)(b.regs().a[0] & 0xFFFF) : b.regs().r[0];
                        check_read(si, "guest load", data_flat(a), got, Guest);
                    }
                } else if (s.op == "gst2" || s.op == "gld2") {
                    int sel = (int)(s.arg(0) & 3);
                    u16 a = sel == 1 ? (u16)(base - 1) : sel == 2 ? (u16)(base + 0x7FF) : (u16)s.arg(1);
                    u16 a2 = (u16)(a + 1);
                    bool ma = in_mmio(a), ma2 = in_mmio(a2);
                    if (ma && ma2)
                        continue; // entirely inside the window: registers with side effects, judged by mmiow
                    if ((ma || ma2) && z != 0)
                        continue; // the DSP-side window is only defined for page 0
                    if ((!ma && !judged(a)) || (!ma2 && !judged(a2)))
                        continue;
                    bool store = s.op == "gst2";
                    u16 vh = (u16)s.arg(2), vl = (u16)s.arg(3);
                    // the register behind a window half is 0x7FF (upper edge) or 0x000 (lower edge): plain storage cells
                    u16 off = ma ? (u16)((a - base) & 0x7FF) : (u16)((a2 - base) & 0x7FF);
                    u16 cell_before = (ma || ma2) ? t.MMIORead(off) : 0;
                    Asm g;
                    g.org(0x1F00);
                    g.w(store ? 0x4DE1 : 0x4BF1); // mova a0 -> [r0],[r0+1]   /   mova [r0],[r0+1] -> a1
                    g.idle();
                    b.regs().r[0] = a;
                    b.regs().a[0] = (u64)(s64)(s32)(((u32)vh << 16) | vl);
                    b.regs().a[1] = 0;
                    // reset ar configuration: arrn0 = r0, step "+2", offset "+1"; no modulo
                    run_stub(g, 1);
                    if (!dead.empty())
                        break;
                    out.probes[store ? "guest_store_dword" : "guest_load_dword"]++;
                    if (ma || ma2)
                        out.probes["dword_straddles_window_edge"]++;
                    if (store) {
                        if (!ma)
                            mset(data_flat(a), vh, Guest);
                        if (!ma2)
                            mset(data_flat(a2), vl, Guest);
                        if (ma || ma2) {
                            u16 cell = t.MMIORead(off), want = ma ? vh : vl;
                            log.add(cell);
                            if (cell != want)
                                out.violate("C11.read-mismatch",
                                            fmt("step %zu: 32-bit guest store at 0x%04x/0x%04x straddling the MMIO window (base 0x%04x): the half "
                                                "inside the window did not reach register 0x%03x (reads 0x%04x, stored 0x%04x)",
                                                si, a, a2, base, off, cell, want));
                        }
                    } else {
                        u32 got = (u32)(b.regs().a[1] & 0xFFFFFFFF);
                        u16 wh = ma ? cell_before : mword(data_flat(a)), wl = ma2 ? cell_before : mword(data_flat(a2));
                        if (!ma)
                            check_read(si, "guest 32-bit load (high half)", data_flat(a), (u16)(got >> 16), Guest);
                        if (!ma2 && out.ok())
                            check_read(si, "guest 32-bit load (low half)", data_flat(a2), (u16)got, Guest);
                        if (out.ok() && got != (((u32)wh << 16) | wl))
                            out.violate("C11.read-mismatch",
                                        fmt("step %zu: 32-bit guest load at 0x%04x/0x%04x straddling the MMIO window (base 0x%04x) returned "
                                            "0x%08x, memory/register 0x%03x hold 0x%04x:0x%04x", si, a, a2, base, got, off, wh, wl));
                    }
                } else if (s.op == "fetch") {
                    u32 at = (u32)(s.arg(0) & 0x3FFF0);
                    if (at >= 0x1F00 && at < 0x1F40)
                        at += 0x100;
                    u16 v = (u16)s.arg(2);
                    int via = (int)(s.arg(1) % 3);
                    u16 code[3] = {(u16)(0x5E00 | op::R0), v, op::BRR_SELF};
                    for (u32 i = 0; i < 3; ++i) {
                        u32 w = at + i;
                        if (via == 0) {
                            t.ProgramWrite(w, code[i]);
                        } else if (via == 1 && w >= 0x20000) {
                            // the data view aliases program words 0x20000..0x3FFFF
                            if (r_is_a32(si))
                                t.DataWriteA32(w - 0x20000, code[i]);
                            else if (w - 0x20000 < 0x10000 && z == 0 && !pgm && !in_mmio((u16)(w - 0x20000)))
                                t.DataWrite((u16)(w - 0x20000), code[i]);
                            else
                                t.DataWriteA32(w - 0x20000, code[i]);
                            out.probes["code_written_through_data_view"]++;
                        } else {
                            b.poke_prog(w, code[i]);
                        }
                        mset(w, code[i], via == 0 ? HostProg : via == 1 ? HostA32 : Raw);
                    }
                    b.regs().r[0] = (u16)~v;
                    b.regs().pc = at;
                    dead = b.run(2);
                    out.sim_cycles += 2;
                    if (!dead.empty())
                        break;
                    log.add(b.regs().r[0]);
                    ++cross_reads;
                    pairs.add(0x700 + (u64)via);
                    if (b.regs().r[0] != v || b.regs().pc != at + 2)
                        out.violate("C11.fetch", fmt("step %zu: code written at program word 0x%x (via path %d) was not what the core fetched: r0=0x%04x "
                                                     "expected 0x%04x, pc=0x%x expected 0x%x", si, at, via, b.regs().r[0], v, b.regs().pc, at + 2));
                } else if (s.op == "dma") {
                    u32 src = (u32)(s.arg(0) & 0x1FFFF), dst = (u32)(s.arg(1) & 0x1FFFF);
                    u32 n = (u32)std::max<s64>(1, std::min<s64>(s.arg(2), 16));
                    if (src + n > 0x20000 || dst + n > 0x20000)
                        continue;
                    t.MMIOWrite(0x1BE, 0);
                    t.MMIOWrite(0x1C0, (u16)src);
                    t.MMIOWrite(0x1C2, (u16)(src >> 16));
                    t.MMIOWrite(0x1C4, (u16)dst);
                    t.MMIOWrite(0x1C6, (u16)(dst >> 16));
                    t.MMIOWrite(0x1C8, (u16)n);
                    t.MMIOWrite(0x1CA, 1);
                    t.MMIOWrite(0x1CC, 1);
                    t.MMIOWrite(0x1CE, 1);
                    t.MMIOWrite(0x1D0, 1);
                    t.MMIOWrite(0x1DA, 0);
                    t.MMIOWrite(0x1DE, 0x40C0);
                    for (u32 i = 0; i < n; ++i) {
                        if (writer[0x20000 + src + i] != None && writer[0x20000 + src + i] != DmaP) {
                            ++cross_reads;
                            pairs.add((u64)writer[0x20000 + src + i] * 16 + DmaP);
                        }
                        mset(0x20000 + dst + i, mword(0x20000 + src + i), DmaP);
                    }
                } else if (s.op == "zpage") {
                    z = (int)(s.arg(0) & 1);
                    t.MMIOWrite(0x112, (u16)z);
                    out.faults_configured["relocate"]++;
                    out.faults_fired["relocate"]++;
                } else if (s.op == "pmode") {
                    pgm = (int)(s.arg(0) & 1);
                    t.MMIOWrite(0x11A, (u16)(pgm ? 0x0040 : 0));
                    out.faults_configured["relocate"]++;
                    out.faults_fired["relocate"]++;
                    out.probes["paging_mode_switched"]++;
                } else if (s.op == "xpage" || s.op == "ypage") {
                    int v = (int)(s.arg(0) & 1);
                    (s.op == "xpage" ? xp : yp) = v;
                    t.MMIOWrite(s.op == "xpage" ? 0x10E : 0x110, (u16)v);
                    out.faults_configured["relocate"]++;
                    out.faults_fired["relocate"]++;
                } else if (s.op == "reloc") {
                    base = (u16)(s.arg(0) & 0xFC00);
                    t.MMIOWrite(0x11E, base);
                    out.faults_configured["relocate"]++;
                    out.faults_fired["relocate"]++;
                } else if (s.op == "mmiow") {
                    // a data access inside the window reaches the register, not the memory underneath
                    u16 off = (u16)(s.arg(0) & 0x7FE);
                    u16 v = (u16)s.arg(1);
                    if (z != 0 || (u32)base + off > 0xFFFF || !judged((u16)(base + off)))
                        continue; // the DSP-side window is only defined for page 0
                    u16 a = (u16)(base + off);
                    u16 under = mword(data_flat(a));
                    t.DataWrite(a, v, false);
                    out.probes["window_write"]++;
                    u16 reg = t.DataRead(a, false), reg_host = t.MMIORead(off), mem = t.DataRead(a, true);
                    log.add(reg);
                    if (mem != under)
                        out.violate("C11.mmio-shadow-modified", fmt("step %zu: after a data write to window address 0x%04x (offset 0x%03x) the memory "
                                                                    "underneath reads 0x%04x, was 0x%04x", si, a, off, mem, under));
                    else if (reg != reg_host)
                        out.violate("C11.read-mismatch", fmt("step %zu: window address 0x%04x reads 0x%04x, host MMIO accessor offset 0x%03x reads 0x%04x",
                                                             si, a, reg, off, reg_host));
                    else if (reg != v)
                        out.violate("C11.read-mismatch", fmt("step %zu: window address 0x%04x (offset 0x%03x) did not reach the register: wrote 0x%04x, "
                                                             "reads 0x%04x", si, a, off, v, reg));
                } else if (s.op == "run") {
                    b.poke_prog(0x1F00, op::BRR_SELF);
                    mset(0x1F00, op::BRR_SELF, Raw);
                    b.regs().pc = 0x1F00;
                    dead = b.run((u64)std::min<s64>(s.arg(0), 100));
                    out.sim_cycles += (u64)s.arg(0);
                    out.faults_configured["slice"]++;
                    out.faults_fired["slice"]++;
                } else {
                    continue;
                }
            } catch (const VerifAssert& e) {
                dead = e.file + ":" + std::to_string(e.line);
                break;
            }
            if (out.ok() && dead.empty())
                compare_all(si);
            Hasher sg;
            sg.add(hash_str(s.op.c_str()));
            sg.add((u64)z);
            sg.add((u64)(pgm * 4 + xp * 2 + yp));
            sg.add(base >> 10);
            out.state_sigs.insert(sg.h);
        }
        if (!dead.empty()) {
            out.aborted = true;
            out.abort_site = dead;
        }
        out.probes["cross_party_reads"] += cross_reads;
        out.nontrivial = cross_reads > 0 && compares > 0;
        out.sig = pairs.h;
        out.hash = log.h;
        return out;
    }
    static bool r_is_a32(std::size_t si) {
        return (si & 1) != 0;
    }
};

Registrar reg(new C11);

} // namespace
} // namespace sim
