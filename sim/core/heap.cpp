#include "heap.h"
#include <cstddef>
#include <cstdlib>
#include <cstring>
#include <new>

namespace sim {
static HeapPoison g_poison;
HeapPoison& heap_poison() {
    return g_poison;
}
} // namespace sim

#ifndef TEAKSIM_TSAN
static void* poisoned_alloc(std::size_t n, std::size_t align) {
    if (n == 0)
        n = 1;
    void* p = nullptr;
    if (align <= 16) {
        p = std::malloc(n);
    } else {
        if (posix_memalign(&p, align, n) != 0)
            p = nullptr;
    }
    if (!p)
        throw std::bad_alloc();
    if (sim::g_poison.on) {
        std::memset(p, sim::g_poison.fill, n);
        ++sim::g_poison.allocations;
    }
    return p;
}
void* operator new(std::size_t n) {
    return poisoned_alloc(n, 1);
}
void* operator new[](std::size_t n) {
    return poisoned_alloc(n, 1);
}
void* operator new(std::size_t n, std::align_val_t a) {
    return poisoned_alloc(n, (std::size_t)a);
}
void* operator new[](std::size_t n, std::align_val_t a) {
    return poisoned_alloc(n, (std::size_t)a);
}
void operator delete(void* p) noexcept {
    std::free(p);
}
void operator delete[](void* p) noexcept {
    std::free(p);
}
void operator delete(void* p, std::size_t) noexcept {
    std::free(p);
}
void operator delete[](void* p, std::size_t) noexcept {
    std::free(p);
}
void operator delete(void* p, std::align_val_t) noexcept {
    std::free(p);
}
void operator delete[](void* p, std::align_val_t) noexcept {
    std::free(p);
}
void operator delete(void* p, std::size_t, std::align_val_t) noexcept {
    std::free(p);
}
void operator delete[](void* p, std::size_t, std::align_val_t) noexcept {
    std::free(p);
}
#endif
