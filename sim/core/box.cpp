#include "box.h"
#include <cstring>

namespace sim {

namespace {

struct RegWalker {
    ObsValues* out = nullptr;
    ObsNames* names = nullptr;
    void put(const char* n, u64 v) {
        if (out)
            out->push_back(v);
        if (names)
            names->push_back(n);
    }
    template <typename A>
    void arr(const char* n, const A& a) {
        for (std::size_t i = 0; i < a.size(); ++i) {
            if (out)
                out->push_back((u64)a[i]);
            if (names)
                names->push_back(std::string(n) + "[" + std::to_string(i) + "]");
        }
    }
    void walk_swappable(const char* prefix, const Teakra::RegisterState& r) {
        std::string p = prefix;
        auto N = [&](const char* n) { return (p + n); };
        // registers exchanged by a context switch (two-way banks)
        if (out) {
            for (u64 v : {(u64)r.pcmhi, (u64)r.sat, (u64)r.sata, (u64)r.hwm, (u64)r.s, (u64)r.ps[0], (u64)r.ps[1], (u64)r.page,
                          (u64)r.stp16, (u64)r.cmd, (u64)r.imv, (u64)r.epi, (u64)r.epj})
                out->push_back(v);
        }
        if (names) {
            for (const char* n : {"pcmhi", "sat", "sata", "hwm", "s", "ps[0]", "ps[1]", "page", "stp16", "cmd", "imv", "epi", "epj"})
                names->push_back(N(n));
        }
        arr(N("m").c_str(), r.m);
        arr(N("br").c_str(), r.br);
        arr(N("im").c_str(), r.im);
        arr(N("arstep").c_str(), r.arstep);
        arr(N("arpstepi").c_str(), r.arpstepi);
        arr(N("arpstepj").c_str(), r.arpstepj);
        arr(N("aroffset").c_str(), r.aroffset);
        arr(N("arpoffseti").c_str(), r.arpoffseti);
        arr(N("arpoffsetj").c_str(), r.arpoffsetj);
        arr(N("arrn").c_str(), r.arrn);
        arr(N("arprni").c_str(), r.arprni);
        arr(N("arprnj").c_str(), r.arprnj);
    }
    void walk_flags(const char* prefix, const Teakra::RegisterState& r) {
        std::string p = prefix;
        const char* n[] = {"flm", "fvl", "fe", "fc0", "fc1", "fv", "fn", "fm", "fz", "fr"};
        u64 v[] = {r.flm, r.fvl, r.fe, r.fc0, r.fc1, r.fv, r.fn, r.fm, r.fz, r.fr};
        for (int i = 0; i < 10; ++i) {
            if (out)
                out->push_back(v[i]);
            if (names)
                names->push_back(p + n[i]);
        }
    }
    void walk(const Teakra::RegisterState& r, bool shadows) {
        put("pc", r.pc);
        put("prpage", r.prpage);
        put("cpc", r.cpc);
        put("repc", r.repc);
        put("repcs", r.repcs);
        put("rep", r.rep);
        put("crep", r.crep);
        put("bcn", r.bcn);
        put("lp", r.lp);
        for (int i = 0; i < 4; ++i) {
            std::string b = "bkrep_stack[" + std::to_string(i) + "].";
            put((b + "start").c_str(), r.bkrep_stack[i].start);
            put((b + "end").c_str(), r.bkrep_stack[i].end);
            put((b + "lc").c_str(), r.bkrep_stack[i].lc);
        }
        arr("a", r.a);
        arr("b", r.b);
        put("a1s", r.a1s);
        put("b1s", r.b1s);
        put("ccnta", r.ccnta);
        put("sv", r.sv);
        walk_flags("", r);
        put("vtr0", r.vtr0);
        put("vtr1", r.vtr1);
        arr("x", r.x);
        arr("y", r.y);
        arr("p", r.p);
        arr("pe", r.pe);
        put("p0h_cbs", r.p0h_cbs);
        arr("r", r.r);
        put("mixp", r.mixp);
        put("sp", r.sp);
        put("r0b", r.r0b);
        put("r1b", r.r1b);
        put("r4b", r.r4b);
        put("r7b", r.r7b);
        put("stepi", r.stepi);
        put("stepj", r.stepj);
        put("modi", r.modi);
        put("modj", r.modj);
        put("stepi0", r.stepi0);
        put("stepj0", r.stepj0);
        put("stepib", r.stepib);
        put("stepjb", r.stepjb);
        put("modib", r.modib);
        put("modjb", r.modjb);
        put("stepi0b", r.stepi0b);
        put("stepj0b", r.stepj0b);
        walk_swappable("", r);
        arr("ip", r.ip);
        put("ipv", r.ipv);
        arr("ic", r.ic);
        put("nimc", r.nimc);
        put("ie", r.ie);
        arr("ou", r.ou);
        arr("iu", r.iu);
        arr("ext", r.ext);
        put("mod0_unk_const", r.mod0_unk_const);
        if (shadows) {
            Teakra::RegisterState c = r;
            c.ShadowSwap();
            walk_swappable("shadow.", c);
            Teakra::RegisterState d = r;
            d.ShadowRestore();
            walk_flags("shadow.", d);
        }
    }
};

} // namespace

void observe_regs(const Teakra::RegisterState& regs, ObsValues& out, bool shadows) {
    RegWalker w;
    w.out = &out;
    w.walk(regs, shadows);
}

const ObsNames& reg_names(bool shadows) {
    static ObsNames with, without;
    ObsNames& n = shadows ? with : without;
    if (n.empty()) {
        RegWalker w;
        w.names = &n;
        Teakra::RegisterState r{};
        w.walk(r, shadows);
    }
    return n;
}

const std::vector<u16>& modelled_mmio_offsets() {
    static std::vector<u16> v;
    if (v.empty()) {
        for (u16 base : {0x20, 0x30})
            for (u16 o = 0; o <= 0xA; o += 2)
                v.push_back((u16)(base + o));
        for (u16 o : {0x0C0, 0x0C4, 0x0C8, 0x0CC, 0x0CE, 0x0D0, 0x0D2, 0x0D4, 0x0D6, 0x0D8, 0x0E0})
            v.push_back(o);
        for (u16 i = 0; i < 3; ++i)
            for (u16 o : {0x0E2, 0x0E4, 0x0E6})
                v.push_back((u16)(o + i * 6));
        for (u16 o : {0x10E, 0x110, 0x112, 0x114, 0x116, 0x11A, 0x11E, 0x184, 0x1BE})
            v.push_back(o);
        for (u16 o = 0x200; o <= 0x20C; o += 2)
            v.push_back(o);
        for (u16 i = 0; i < 16; ++i) {
            v.push_back((u16)(0x212 + i * 4));
            v.push_back((u16)(0x214 + i * 4));
        }
        for (u16 i = 0; i < 2; ++i)
            for (u16 o : {0x2A2, 0x2BE, 0x2C2, 0x2CA})
                v.push_back((u16)(o + i * 0x80));
    }
    return v;
}

Box::Box(bool user_mem, int prefill) {
    Teakra::UserConfig cfg;
    if (user_mem) {
        user_memory.assign(0x80000, (u8)(prefill < 0 ? 0 : prefill));
        cfg.dsp_memory = user_memory.data();
    }
    t = std::make_unique<Teakra::Teakra>(cfg);
    raw_mem = t->GetDspMemory();
}

void Box::install_callbacks() {
    Teakra::AHBMCallback cb;
    auto charge = [this]() {
        if (++ext_accesses > ext_budget)
            throw VerifBudget{};
    };
    cb.read8 = [this, charge](u32 a) -> u8 {
        charge();
        u8 v = (u8)ext.read(a, 8);
        if (log_ext)
            events.push_back(Event{Event::ExtRead, 8, a, v});
        return v;
    };
    cb.read16 = [this, charge](u32 a) -> u16 {
        charge();
        u16 v = (u16)ext.read(a, 16);
        if (log_ext)
            events.push_back(Event{Event::ExtRead, 16, a, v});
        return v;
    };
    cb.read32 = [this, charge](u32 a) -> u32 {
        charge();
        u32 v = ext.read(a, 32);
        if (log_ext)
            events.push_back(Event{Event::ExtRead, 32, a, v});
        return v;
    };
    cb.write8 = [this, charge](u32 a, u8 v) {
        charge();
        ext.write(a, 8, v);
        if (log_ext)
            events.push_back(Event{Event::ExtWrite, 8, a, v});
    };
    cb.write16 = [this, charge](u32 a, u16 v) {
        charge();
        ext.write(a, 16, v);
        if (log_ext)
            events.push_back(Event{Event::ExtWrite, 16, a, v});
    };
    cb.write32 = [this, charge](u32 a, u32 v) {
        charge();
        ext.write(a, 32, v);
        if (log_ext)
            events.push_back(Event{Event::ExtWrite, 32, a, v});
    };
    t->SetAHBMCallback(cb);
    t->SetAudioCallback([this](std::array<std::int16_t, 2> s) {
        events.push_back(Event{Event::Audio, 0, (u32)(u16)s[0], (u32)(u16)s[1]});
    });
    if (polling_host)
        return;
    for (u8 ch = 0; ch < 3; ++ch) {
        t->SetRecvDataHandler(ch, [this, ch]() {
            ++handler_calls[ch];
            events.push_back(Event{Event::RecvHandler, ch, 0, 0});
            if (reenter_mode == 1) {
                // host handler reads the reply it was told about (legal re-entry into the API)
                if (t->RecvDataIsReady(ch))
                    (void)t->RecvData(ch);
            } else if (reenter_mode == 2) {
                (void)t->PeekRecvData(ch);
                (void)t->GetSemaphore();
            }
        });
    }
    t->SetSemaphoreHandler([this]() {
        ++handler_calls[3];
        events.push_back(Event{Event::SemHandler, 0, 0, 0});
        if (reenter_mode == 1)
            (void)t->GetSemaphore();
    });
}

std::string Box::run(u64 n) {
    try {
        t->Run((unsigned)n);
    } catch (const VerifAssert& a) {
        return a.file + ":" + std::to_string(a.line) + ":" + a.expr;
    }
    return "";
}

void Box::observe_mmio(ObsValues& out) {
    u16 chan = t->MMIORead(0x1BE);
    for (u16 o : modelled_mmio_offsets())
        out.push_back(t->MMIORead(o));
    if (chan < 8) {
        for (u16 o = 0x1C0; o <= 0x1DE; o += 2)
            out.push_back(t->MMIORead(o));
    } else {
        for (u16 o = 0x1C0; o <= 0x1DE; o += 2)
            out.push_back(0xDEAD0000u | chan);
    }
}

void Box::observe_apbp(ObsValues& out) {
    for (u8 i = 0; i < 3; ++i) {
        out.push_back(t->SendDataIsEmpty(i));
        out.push_back(t->RecvDataIsReady(i));
        out.push_back(t->PeekRecvData(i));
    }
    out.push_back(t->GetSemaphore());
}

u64 Box::mem_digest() {
    const u64* p = reinterpret_cast<const u64*>(mem());
    u64 h = 1469598103934665603ull;
    for (std::size_t i = 0; i < 0x80000 / 8; ++i) {
        h ^= p[i];
        h *= 1099511628211ull;
        h ^= h >> 29;
    }
    return h;
}

namespace {
std::vector<std::unique_ptr<Box>>& pool(bool user) {
    static std::vector<std::unique_ptr<Box>> own, usr;
    return user ? usr : own;
}
} // namespace

void BoxPool::prefill(int own, int user) {
    while ((int)pool(false).size() < own)
        pool(false).push_back(std::make_unique<Box>(false, -1));
    while ((int)pool(true).size() < user)
        pool(true).push_back(std::make_unique<Box>(true, 0));
}

std::unique_ptr<Box> BoxPool::take(bool user_mem) {
    auto& p = pool(user_mem);
    if (p.empty())
        return std::make_unique<Box>(user_mem, user_mem ? 0 : -1);
    std::unique_ptr<Box> b = std::move(p.back());
    p.pop_back();
    return b;
}

long first_diff(const ObsValues& a, const ObsValues& b) {
    std::size_t n = std::min(a.size(), b.size());
    for (std::size_t i = 0; i < n; ++i)
        if (a[i] != b[i])
            return (long)i;
    if (a.size() != b.size())
        return (long)n;
    return -1;
}

long first_mem_diff(Box& a, Box& b, u32 from_word, u32 to_word) {
    const u8* pa = a.mem();
    const u8* pb = b.mem();
    if (std::memcmp(pa + from_word * 2, pb + from_word * 2, (std::size_t)(to_word - from_word) * 2) == 0)
        return -1;
    for (u32 w = from_word; w < to_word; ++w)
        if (pa[w * 2] != pb[w * 2] || pa[w * 2 + 1] != pb[w * 2 + 1])
            return (long)w;
    return -1;
}

} // namespace sim

namespace sim {
void prefill_pool(int own, int user) {
    BoxPool::prefill(own, user);
}
} // namespace sim
