// heap-poison fault: global operator new fills every allocation with a chosen byte while enabled,
// so state that constructors leave uninitialised takes a seed-chosen value ("allocation history").
#pragma once
#include "common.h"
namespace sim {
struct HeapPoison {
    bool on = false;
    u8 fill = 0;
    u64 allocations = 0;
};
HeapPoison& heap_poison();
} // namespace sim
