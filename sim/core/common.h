// teaksim core: seeded PRNG, plans (= replay files), outcomes, scenario registry.
// Everything a run does is a pure function of its Plan and the code under test.
#pragma once
#include <algorithm>
#include <cstdint>
#include <cstdio>
#include <cstring>
#include <functional>
#include <map>
#include <set>
#include <sstream>
#include <stdexcept>
#include <string>
#include <vector>

namespace sim {

using u8 = std::uint8_t;
using u16 = std::uint16_t;
using u32 = std::uint32_t;
using u64 = std::uint64_t;
using s64 = std::int64_t;

// ---------------------------------------------------------------- PRNG (SplitMix64)
inline u64 splitmix(u64& s) {
    u64 z = (s += 0x9E3779B97F4A7C15ull);
    z = (z ^ (z >> 30)) * 0xBF58476D1CE4E5B9ull;
    z = (z ^ (z >> 27)) * 0x94D049BB133111EBull;
    return z ^ (z >> 31);
}
inline u64 mix(u64 a, u64 b) {
    u64 s = a * 0x9E3779B97F4A7C15ull + b + 0x632BE59BD9B4E019ull;
    u64 r = splitmix(s);
    r ^= b * 0xD6E8FEB86659FD93ull;
    s ^= r;
    return splitmix(s);
}
inline u64 hash_str(const char* p) {
    u64 h = 1469598103934665603ull;
    for (; *p; ++p) {
        h ^= (u8)*p;
        h *= 1099511628211ull;
    }
    return h;
}

struct Rng {
    u64 s;
    explicit Rng(u64 seed) : s(seed) {}
    u64 next() {
        return splitmix(s);
    }
    // uniform in [0, n)
    u64 below(u64 n) {
        if (n == 0)
            return 0;
        return next() % n;
    }
    // uniform in [lo, hi]
    s64 range(s64 lo, s64 hi) {
        return lo + (s64)below((u64)(hi - lo + 1));
    }
    bool chance(u64 num, u64 den) {
        return below(den) < num;
    }
    template <typename T>
    const T& pick(const std::vector<T>& v) {
        return v[below(v.size())];
    }
    template <typename T, std::size_t N>
    const T& pick(const T (&v)[N]) {
        return v[below(N)];
    }
    // geometric-ish small number: 0 most likely
    u64 small(u64 cap) {
        u64 n = 0;
        while (n < cap && chance(1, 2))
            ++n;
        return n;
    }
};

// ---------------------------------------------------------------- event-log hash (FNV-1a over 64-bit words)
struct Hasher {
    u64 h = 1469598103934665603ull;
    void add(u64 v) {
        for (int i = 0; i < 8; ++i) {
            h ^= (v >> (i * 8)) & 0xFF;
            h *= 1099511628211ull;
        }
    }
    void add_bytes(const void* p, std::size_t n) {
        const u8* b = (const u8*)p;
        for (std::size_t i = 0; i < n; ++i) {
            h ^= b[i];
            h *= 1099511628211ull;
        }
    }
    void add_str(const std::string& s) {
        add_bytes(s.data(), s.size());
        add(s.size());
    }
};

// ---------------------------------------------------------------- plans
struct Step {
    std::string op;
    std::vector<s64> a;
    s64 arg(std::size_t i, s64 dflt = 0) const {
        return i < a.size() ? a[i] : dflt;
    }
};

struct Plan {
    std::string prop;
    u64 seed = 0;
    std::vector<std::pair<std::string, s64>> knobs; // ordered, deterministic
    std::vector<Step> steps;
    std::string expect_class;  // filled in for replay files
    std::string expect_detail; // first divergent observation (informational + replay gate)

    s64 knob(const std::string& k, s64 dflt = 0) const {
        for (auto& kv : knobs)
            if (kv.first == k)
                return kv.second;
        return dflt;
    }
    void set_knob(const std::string& k, s64 v) {
        for (auto& kv : knobs)
            if (kv.first == k) {
                kv.second = v;
                return;
            }
        knobs.emplace_back(k, v);
    }
    void add(const std::string& op, std::initializer_list<s64> a = {}) {
        steps.push_back(Step{op, std::vector<s64>(a)});
    }
    std::string to_text() const;
    static Plan from_text(const std::string& text);
    u64 shape_hash() const;
};

// ---------------------------------------------------------------- outcome of one run
struct Outcome;
std::string outcome_to_text(const Outcome& o);
Outcome outcome_from_text(const std::string& text);

struct Outcome {
    std::string cls;    // "" = property held on this run; otherwise violation class id
    std::string detail; // first divergent observation, human readable
    u64 hash = 0;       // event-log hash (determinism gate)
    bool nontrivial = false;
    u64 sig = 0;        // abstract reached-state signature (for distinct counting)
    u64 sim_cycles = 0;
    bool aborted = false; // ended by a deliberate teakra ASSERT (allowed outcome)
    std::string abort_site;
    std::map<std::string, u64> probes;
    std::map<std::string, u64> faults_configured;
    std::map<std::string, u64> faults_fired;
    std::set<u64> state_sigs; // distinct abstract states seen during the run
    std::vector<std::string> notes;

    void violate(const std::string& c, const std::string& d) {
        if (cls.empty()) {
            cls = c;
            detail = d;
        }
    }
    bool ok() const {
        return cls.empty();
    }
};

// ---------------------------------------------------------------- hook exceptions (thrown by harness-side hook bodies)
struct VerifAssert {
    std::string expr, file;
    int line;
};
struct VerifOOB {
    u32 address;
    bool is_write;
    u32 pc = 0;     // register values at the time of the access, when the scenario published them
    u16 prpage = 0;
    bool have_regs = false;
};
struct VerifBudget {};

// access budget / bounds observer control (per thread of execution in single-threaded scenarios)
struct HookState {
    u64 accesses = 0;
    u64 budget = ~0ull;      // throw VerifBudget past this many accesses
    u32 last_oob = 0;
    bool armed = true;
    const u32* pc_ptr = nullptr; // published by a scenario so that an out-of-bounds report can be explained
    const u16* prpage_ptr = nullptr;
};
HookState& hooks();

// ---------------------------------------------------------------- scenarios
struct Tier {
    bool thorough = false;
};

class Scenario {
public:
    virtual ~Scenario() = default;
    virtual const char* prop() const = 0;
    virtual Plan generate(u64 seed, const Tier& tier) = 0;
    virtual Outcome execute(const Plan& plan) = 0;
    // knobs the shrinker may try to simplify, with the "simplest" value for each
    virtual std::vector<std::pair<std::string, s64>> simplest_knobs() const {
        return {};
    }
    // number of pristine Teakra instances (own memory, user memory) one execution needs. Non-zero
    // means: construct them once per worker and execute every plan in a forked child, so each run
    // starts from bit-identical freshly constructed instances without paying for construction.
    virtual std::pair<int, int> pool_need() const {
        return {0, 0};
    }
    virtual const char* components_real() const = 0;
    virtual const char* components_stub() const = 0;
    virtual const char* nontrivial_rule() const = 0;
};

void register_scenario(Scenario* s);
Scenario* find_scenario(const std::string& prop);

struct Registrar {
    explicit Registrar(Scenario* s) {
        register_scenario(s);
    }
};

void emergency_finish(const Outcome& o); // main.cpp: end a forked execution at once with this outcome

// small helpers
std::string hex(u64 v, int width = 0);
std::string fmt(const char* f, ...) __attribute__((format(printf, 1, 2)));

} // namespace sim
