// Box — one simulated machine: a real Teakra::Teakra instance with the simulated environment
// (host interrupt log, audio sink, external memory) attached through its public callbacks, plus
// observation helpers used by the twin-run oracles.
#pragma once
#include <array>
#include <map>
#include <memory>
#include "common.h"
#include "teakra/teakra.h"
#include "register.h"

namespace sim {

// ---------------------------------------------------------------- event log (ordered callback events)
struct Event {
    enum Kind : u8 { Audio, RecvHandler, SemHandler, ExtRead, ExtWrite };
    u8 kind;
    u8 width; // ext accesses: 8/16/32 ; RecvHandler: channel
    u32 a;    // address / left sample
    u32 b;    // value / right sample
    bool operator==(const Event& o) const {
        return kind == o.kind && width == o.width && a == o.a && b == o.b;
    }
    std::string str() const {
        switch (kind) {
        case Audio:
            return fmt("audio(%d,%d)", (int)(std::int16_t)a, (int)(std::int16_t)b);
        case RecvHandler:
            return fmt("recv-handler(ch%d)", width);
        case SemHandler:
            return "semaphore-handler";
        case ExtRead:
            return fmt("ext-read%d(0x%x)=0x%x", width, a, b);
        default:
            return fmt("ext-write%d(0x%x,0x%x)", width, a, b);
        }
    }
};

// ---------------------------------------------------------------- external memory stub (sparse, byte addressed, little endian)
struct ExtMem {
    std::map<u32, u8> bytes;
    u64 fill_seed = 0; // unwritten bytes read as a function of (seed, address): deterministic, not all-zero
    u8 get(u32 a) const {
        auto it = bytes.find(a);
        if (it != bytes.end())
            return it->second;
        return (u8)(mix(fill_seed, a) & 0xFF);
    }
    void set(u32 a, u8 v) {
        bytes[a] = v;
    }
    u32 read(u32 a, int width) const {
        u32 v = 0;
        for (int i = 0; i < width / 8; ++i)
            v |= (u32)get(a + (u32)i) << (8 * i);
        return v;
    }
    void write(u32 a, int width, u32 v) {
        for (int i = 0; i < width / 8; ++i)
            set(a + (u32)i, (u8)(v >> (8 * i)));
    }
};

// ---------------------------------------------------------------- named observations
using ObsNames = std::vector<std::string>;
using ObsValues = std::vector<u64>;

// all architectural fields of RegisterState, then (optionally) the shadow banks read out through a
// scratch copy on which the bank-exchange primitives are applied
void observe_regs(const Teakra::RegisterState& regs, ObsValues& out, bool shadows);
const ObsNames& reg_names(bool shadows);

// MMIO offsets that are free of read side effects and belong to modelled peripherals
const std::vector<u16>& modelled_mmio_offsets();

struct Box {
    std::unique_ptr<Teakra::Teakra> t;
    std::vector<u8> user_memory; // used when the run supplies its own DSP memory
    std::vector<Event> events;
    ExtMem ext;
    bool log_ext = true;
    u64 ext_accesses = 0, ext_budget = ~0ull; // VerifBudget is thrown past this many external accesses
    // host handlers may call back into the API (re-entrancy); set per run
    int reenter_mode = 0;
    u64 handler_calls[4] = {0, 0, 0, 0};

    explicit Box(bool user_mem = false, int prefill = -1);
    void install_callbacks();
    void reset() {
        t->Reset();
    }
    Teakra::RegisterState& regs() {
        return t->GetRegisterState();
    }
    // The raw memory pointer is fetched ONCE, when the machine is built, and kept - as an emulator front end does. (Fetching it
    // anew for every access would tell the library about every raw write and hide any defect that depends on it not knowing.)
    u8* mem() {
        return raw_mem;
    }
    u8* fresh_mem() {
        return t->GetDspMemory();
    }
    u8* raw_mem = nullptr;
    bool polling_host = false; // a host that never installs receive / semaphore handlers and only polls
    // program / data word helpers working on the raw array (independent of MemoryInterface)
    void poke_prog(u32 addr, u16 v) {
        mem()[addr * 2] = (u8)v;
        mem()[addr * 2 + 1] = (u8)(v >> 8);
    }
    u16 peek_prog(u32 addr) {
        return (u16)(mem()[addr * 2] | (mem()[addr * 2 + 1] << 8));
    }
    void poke_data(u32 addr, u16 v) {
        poke_prog(0x20000 + addr, v);
    }
    u16 peek_data(u32 addr) {
        return peek_prog(0x20000 + addr);
    }
    void load(const std::map<u32, u16>& words) {
        for (auto& kv : words)
            poke_prog(kv.first, kv.second);
    }
    // Runs n cycles; returns "" or the abort site if teakra's own ASSERT fired. Other hook
    // exceptions propagate.
    std::string run(u64 n);

    void observe_mmio(ObsValues& out);
    void observe_apbp(ObsValues& out);
    u64 mem_digest();
};

// Pristine instances built ahead of time (see Scenario::pool_need). take() hands one out, or
// constructs a new one when the pool is empty (slow path, same result).
struct BoxPool {
    static void prefill(int own, int user);
    static std::unique_ptr<Box> take(bool user_mem);
};

// first index where two observation vectors differ, or -1
long first_diff(const ObsValues& a, const ObsValues& b);
// first differing DSP memory word (word index), or -1
long first_mem_diff(Box& a, Box& b, u32 from_word = 0, u32 to_word = 0x40000);

} // namespace sim
