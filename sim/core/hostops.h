// Host-side operation alphabet shared by the facade scenarios: every op is one call (or a short fixed
// group of calls) of the public API in include/teakra/teakra.h.
#pragma once
#include "../guest/firmware.h"
#include "box.h"

namespace sim {

// documented MMIO fields: offset, mask of bits that are backed by modelled component state
struct MmioField {
    u16 off;
    u16 modelled_mask;
};
const std::vector<MmioField>& mmio_fields();
u16 modelled_mask_of(u16 off); // 0 for offsets that hold no modelled state

// generator: random firmware knobs (routing, timers, handlers, audio) as used by fw_from_plan
void gen_fw_knobs(Rng& r, Plan& p);

// generator: appends one random in-contract host op
void gen_host_op(Rng& r, Plan& p, bool allow_run, int max_run);

// interpreter: applies one op; returns a value observed by the op (reads) or 0. Ops it does not know
// are ignored (returns ~0ull) so that scenarios can add their own.
u64 apply_host_op(Box& b, FwConfig& fw, const Plan& plan, const Step& s, std::string& abort_site);

} // namespace sim
