// teaksim driver: worker loop, replay, plan generation, minimisation, hook bodies.
#include <algorithm>
#include <cerrno>
#include <chrono>
#include <cstdarg>
#include <cstdlib>
#include <fcntl.h>
#include <fstream>
#include <sys/stat.h>
#include <sys/wait.h>
#include <unistd.h>
#include "common.h"

// ---------------------------------------------------------------- sanitizer defaults
extern "C" {
__attribute__((used, visibility("default"))) const char* __asan_default_options() {
    return "exitcode=77:detect_leaks=0:abort_on_error=0:detect_stack_use_after_return=1:"
           "allocator_may_return_null=1:handle_abort=0";
}
__attribute__((used, visibility("default"))) const char* __ubsan_default_options() {
    return "print_stacktrace=0:halt_on_error=0";
}
__attribute__((used, visibility("default"))) const char* __tsan_default_options() {
    return "exitcode=0:halt_on_error=0:report_signal_unsafe=0:second_deadlock_stack=1";
}
}

// ---------------------------------------------------------------- hooks called from teakra (guard TEAKRA_VERIF)
namespace sim {
static thread_local HookState g_hooks;
HookState& hooks() {
    return g_hooks;
}
} // namespace sim

[[noreturn]] void teakra_verif_on_assert(const char* expression, const char* file, int line) {
    const char* base = std::strrchr(file, '/');
    throw sim::VerifAssert{expression, base ? base + 1 : file, line};
}

void teakra_verif_mem_access(std::uint32_t word_address, bool is_write) {
    sim::HookState& h = sim::g_hooks;
    if (!h.armed)
        return;
    if (word_address >= 0x40000) {
        h.last_oob = word_address;
        sim::VerifOOB e{word_address, is_write};
        if (h.pc_ptr && h.prpage_ptr) {
            e.pc = *h.pc_ptr;
            e.prpage = *h.prpage_ptr;
            e.have_regs = true;
        }
        throw e;
    }
    if (++h.accesses > h.budget)
        throw sim::VerifBudget{};
}

namespace sim {

void prefill_pool(int own, int user); // box.cpp (weak no-op in builds without the facade)

// ---------------------------------------------------------------- helpers
std::string hex(u64 v, int width) {
    char buf[32];
    std::snprintf(buf, sizeof buf, "%0*llx", width, (unsigned long long)v);
    return buf;
}
std::string fmt(const char* f, ...) {
    char buf[1024];
    va_list ap;
    va_start(ap, f);
    std::vsnprintf(buf, sizeof buf, f, ap);
    va_end(ap);
    return buf;
}

static std::string escape(const std::string& s) {
    std::string r;
    for (char c : s) {
        if (c == ' ')
            r += '_';
        else if (c == '\n' || c == '\r')
            r += '|';
        else
            r += c;
    }
    return r;
}

// ---------------------------------------------------------------- plan text
std::string Plan::to_text() const {
    std::ostringstream o;
    o << "plan v1 prop=" << prop << " seed=" << seed << "\n";
    for (auto& kv : knobs)
        o << "knob " << kv.first << " " << kv.second << "\n";
    for (auto& s : steps) {
        o << "step " << s.op;
        for (s64 v : s.a)
            o << " " << v;
        o << "\n";
    }
    if (!expect_class.empty())
        o << "expect-class " << expect_class << "\n";
    if (!expect_detail.empty())
        o << "expect-detail " << escape(expect_detail) << "\n";
    return o.str();
}

Plan Plan::from_text(const std::string& text) {
    Plan p;
    std::istringstream in(text);
    std::string line;
    while (std::getline(in, line)) {
        if (line.empty() || line[0] == '#')
            continue;
        std::istringstream ls(line);
        std::string kw;
        ls >> kw;
        if (kw == "plan") {
            std::string tok;
            while (ls >> tok) {
                if (tok.rfind("prop=", 0) == 0)
                    p.prop = tok.substr(5);
                else if (tok.rfind("seed=", 0) == 0)
                    p.seed = std::strtoull(tok.c_str() + 5, nullptr, 10);
            }
        } else if (kw == "knob") {
            std::string k;
            s64 v = 0;
            ls >> k >> v;
            p.knobs.emplace_back(k, v);
        } else if (kw == "step") {
            Step s;
            ls >> s.op;
            s64 v;
            while (ls >> v)
                s.a.push_back(v);
            p.steps.push_back(std::move(s));
        } else if (kw == "expect-class") {
            ls >> p.expect_class;
        } else if (kw == "expect-detail") {
            ls >> p.expect_detail;
        }
    }
    return p;
}

u64 Plan::shape_hash() const {
    Hasher h;
    for (auto& kv : knobs) {
        h.add_str(kv.first);
        h.add((u64)kv.second);
    }
    for (auto& s : steps) {
        h.add_str(s.op);
        for (s64 v : s.a)
            h.add((u64)v);
    }
    return h.h;
}

// ---------------------------------------------------------------- registry
static std::vector<Scenario*>& registry() {
    static std::vector<Scenario*> r;
    return r;
}
void register_scenario(Scenario* s) {
    registry().push_back(s);
}
Scenario* find_scenario(const std::string& prop) {
    for (auto* s : registry())
        if (prop == s->prop())
            return s;
    return nullptr;
}

// ---------------------------------------------------------------- stderr capture (UBSan runs in recover mode; reports are parsed per run)
static int g_report_fd = 1;
static int g_real_stderr = 2;
static int g_capture_fd = -1;
static std::string g_capture_path;

static void report(const std::string& line) {
    std::string l = line + "\n";
    const char* p = l.data();
    std::size_t n = l.size();
    while (n) {
        ssize_t w = ::write(g_report_fd, p, n);
        if (w < 0) {
            if (errno == EINTR)
                continue;
            _exit(4);
        }
        p += w;
        n -= (std::size_t)w;
    }
}

static void setup_fds(const std::string& capture_path) {
    g_report_fd = ::dup(1);
    g_real_stderr = ::dup(2);
    int nul = ::open("/dev/null", O_WRONLY);
    ::dup2(nul, 1); // teakra prints diagnostics with printf
    ::close(nul);
    g_capture_path = capture_path;
    g_capture_fd = ::open(capture_path.c_str(), O_RDWR | O_CREAT | O_TRUNC, 0644);
    if (g_capture_fd >= 0)
        ::dup2(g_capture_fd, 2);
}

static void capture_reset() {
    std::fflush(stdout);
    std::fflush(stderr);
    if (g_capture_fd >= 0) {
        if (::ftruncate(g_capture_fd, 0) != 0) {
        }
        ::lseek(g_capture_fd, 0, SEEK_SET);
        ::lseek(2, 0, SEEK_SET);
    }
}

static std::string capture_read() {
    std::fflush(stdout);
    std::fflush(stderr);
    std::string out;
    if (g_capture_fd < 0)
        return out;
    off_t end = ::lseek(g_capture_fd, 0, SEEK_END);
    if (end <= 0)
        return out;
    if (end > 1 << 20)
        end = 1 << 20;
    out.resize((std::size_t)end);
    ssize_t r = ::pread(g_capture_fd, &out[0], (std::size_t)end, 0);
    if (r < 0)
        r = 0;
    out.resize((std::size_t)r);
    return out;
}

// turns "…/src/interpreter.h:123:45: runtime error: shift exponent 70 is too large…" into a site id
static std::string ubsan_site(const std::string& text) {
    std::size_t pos = text.find("runtime error:");
    if (pos == std::string::npos)
        return "";
    std::size_t ls = text.rfind('\n', pos);
    ls = (ls == std::string::npos) ? 0 : ls + 1;
    std::string loc = text.substr(ls, pos - ls); // "/path/file.h:123:45: "
    std::size_t le = text.find('\n', pos);
    std::string msg = text.substr(pos + 15, le == std::string::npos ? std::string::npos : le - pos - 15);
    // file:line
    std::size_t slash = loc.rfind('/');
    if (slash != std::string::npos)
        loc = loc.substr(slash + 1);
    std::size_t c1 = loc.find(':');
    std::size_t c2 = c1 == std::string::npos ? c1 : loc.find(':', c1 + 1);
    std::string fileline = c2 == std::string::npos ? loc : loc.substr(0, c2);
    // kind: message with digits removed, first few words
    std::string kind;
    int words = 0;
    for (char c : msg) {
        if (c == ' ') {
            if (++words >= 3)
                break;
            kind += '-';
        } else if (!(c >= '0' && c <= '9') && c != '-' && c != '\'')
            kind += c;
    }
    while (!kind.empty() && kind.back() == '-')
        kind.pop_back();
    return fileline + ":" + kind;
}

// ---------------------------------------------------------------- outcome (de)serialisation for forked execution
static std::string esc_line(const std::string& s) {
    std::string r;
    for (char c : s)
        r += (c == '\n' || c == '\r' || c == '\t') ? ' ' : c;
    return r;
}
static std::string map_text(const std::map<std::string, u64>& m) {
    std::string r;
    for (auto& kv : m)
        r += kv.first + "=" + std::to_string(kv.second) + ";";
    return r;
}
static void map_parse(const std::string& t, std::map<std::string, u64>& m) {
    std::size_t i = 0;
    while (i < t.size()) {
        std::size_t e = t.find(';', i);
        if (e == std::string::npos)
            break;
        std::string item = t.substr(i, e - i);
        std::size_t q = item.rfind('=');
        if (q != std::string::npos)
            m[item.substr(0, q)] = std::strtoull(item.c_str() + q + 1, nullptr, 10);
        i = e + 1;
    }
}
std::string outcome_to_text(const Outcome& o) {
    std::ostringstream s;
    s << "cls\t" << esc_line(o.cls) << "\n";
    s << "detail\t" << esc_line(o.detail) << "\n";
    s << "hash\t" << o.hash << "\n";
    s << "nontrivial\t" << (o.nontrivial ? 1 : 0) << "\n";
    s << "sig\t" << o.sig << "\n";
    s << "cycles\t" << o.sim_cycles << "\n";
    s << "aborted\t" << (o.aborted ? 1 : 0) << "\n";
    s << "abort_site\t" << esc_line(o.abort_site) << "\n";
    s << "probes\t" << map_text(o.probes) << "\n";
    s << "fc\t" << map_text(o.faults_configured) << "\n";
    s << "ff\t" << map_text(o.faults_fired) << "\n";
    s << "sigs\t";
    int n = 0;
    for (u64 v : o.state_sigs) {
        if (n++ >= 256)
            break;
        s << v << ",";
    }
    s << "\n";
    for (auto& nt : o.notes)
        s << "note\t" << esc_line(nt) << "\n";
    s << "end\t\n";
    return s.str();
}
Outcome outcome_from_text(const std::string& text) {
    Outcome o;
    std::istringstream in(text);
    std::string line;
    bool ended = false;
    while (std::getline(in, line)) {
        std::size_t t = line.find('\t');
        if (t == std::string::npos)
            continue;
        std::string k = line.substr(0, t), v = line.substr(t + 1);
        if (k == "cls")
            o.cls = v;
        else if (k == "detail")
            o.detail = v;
        else if (k == "hash")
            o.hash = std::strtoull(v.c_str(), nullptr, 10);
        else if (k == "nontrivial")
            o.nontrivial = v == "1";
        else if (k == "sig")
            o.sig = std::strtoull(v.c_str(), nullptr, 10);
        else if (k == "cycles")
            o.sim_cycles = std::strtoull(v.c_str(), nullptr, 10);
        else if (k == "aborted")
            o.aborted = v == "1";
        else if (k == "abort_site")
            o.abort_site = v;
        else if (k == "probes")
            map_parse(v, o.probes);
        else if (k == "fc")
            map_parse(v, o.faults_configured);
        else if (k == "ff")
            map_parse(v, o.faults_fired);
        else if (k == "sigs") {
            std::size_t i = 0;
            while (i < v.size()) {
                std::size_t e = v.find(',', i);
                if (e == std::string::npos)
                    break;
                o.state_sigs.insert(std::strtoull(v.substr(i, e - i).c_str(), nullptr, 10));
                i = e + 1;
            }
        } else if (k == "note")
            o.notes.push_back(v);
        else if (k == "end")
            ended = true;
    }
    if (!ended)
        o.cls = "CRASH";
    return o;
}

// "apbp.cpp:44+apbp.cpp:20": first teakra frame of the two conflicting accesses of the first report
static std::string tsan_signature(const std::string& text) {
    std::vector<std::string> locs;
    std::size_t pos = text.find("WARNING: ThreadSanitizer");
    std::size_t end = text.find("SUMMARY: ThreadSanitizer", pos);
    std::string rep = text.substr(pos, end == std::string::npos ? std::string::npos : end - pos);
    std::istringstream in(rep);
    std::string line;
    bool in_access = false, taken = false;
    while (std::getline(in, line)) {
        if (line.find(" of size ") != std::string::npos && (line.find("rite") != std::string::npos || line.find("ead") != std::string::npos)) {
            in_access = true;
            taken = false;
            continue;
        }
        if (line.empty()) {
            in_access = false;
            continue;
        }
        if (in_access && !taken && line.find("#") != std::string::npos) {
            std::size_t s1 = line.find("/src/");
            if (s1 == std::string::npos)
                s1 = line.find("/include/teakra/");
            if (s1 == std::string::npos)
                continue;
            // file:function, not file:line: which of several racing fields of one object TSan reports first depends on what its
            // shadow memory still remembers, so a line-level name would split one defect into several unstable classes
            std::size_t slash = line.rfind('/', line.find(':', s1));
            std::string fl = line.substr(slash + 1);
            fl = fl.substr(0, fl.find(':'));
            std::size_t h = line.find('#');
            std::size_t f0 = line.find(' ', h);
            std::size_t pstart = line.rfind(' ', s1);
            std::string fn = (f0 != std::string::npos && pstart != std::string::npos && pstart > f0) ? line.substr(f0 + 1, pstart - f0 - 1) : "";
            fn = fn.substr(0, fn.find('('));
            std::size_t cc = fn.rfind("::");
            if (cc != std::string::npos)
                fn = fn.substr(cc + 2);
            for (auto& ch : fn)
                if (!isalnum((unsigned char)ch) && ch != '_')
                    ch = '-';
            locs.push_back(fl + ":" + (fn.empty() ? "?" : fn));
            taken = true;
        }
    }
    if (locs.size() >= 2 && locs[1] < locs[0])
        std::swap(locs[0], locs[1]);
    std::string r;
    for (std::size_t i = 0; i < locs.size() && i < 2; ++i)
        r += (i ? "+" : "") + locs[i];
    return r.empty() ? "unknown" : r;
}

// ---------------------------------------------------------------- executing a plan with the always-on invariants
static Outcome run_plan_here(Scenario* sc, const Plan& plan) {
    capture_reset();
    hooks() = HookState{};
    Outcome out;
    try {
        out = sc->execute(plan);
    } catch (const VerifAssert& a) {
        // scenarios normally catch this themselves; reaching here means it escaped from an
        // unexpected place, which is still only a deliberate abort
        out.aborted = true;
        out.abort_site = a.file + ":" + std::to_string(a.line);
    } catch (const VerifOOB& o) {
        out.violate("C18.dspmem-oob", fmt("unclassified escape: %s word address 0x%x", o.is_write ? "write" : "read", o.address));
    } catch (const VerifBudget&) {
        out.notes.push_back("budget-exceeded");
    } catch (const std::exception& e) {
        out.violate(std::string(plan.prop) + ".harness-exception", e.what());
    }
    std::string cap = capture_read();
    if (!cap.empty()) {
        std::string site = ubsan_site(cap);
        if (!site.empty()) {
            // an undefined-behaviour report inside any simulated run is a C18 violation
            if (out.cls.empty()) {
                out.cls = "C18.ubsan:" + site;
                out.detail = cap.substr(0, std::min<std::size_t>(cap.size(), 300));
            }
        } else if (cap.find("WARNING: ThreadSanitizer") != std::string::npos && out.cls.empty()) {
            out.violate("C19.data-race:" + tsan_signature(cap), cap.substr(0, 900));
        }
    }
    return out;
}

static bool g_isolate = false; // execute every plan in a forked child (scenario uses the box pool)
static int g_child_fd = -1;
static std::string g_last_crash_text;

static std::string read_all_fd(int fd) {
    std::string r;
    char buf[65536];
    for (;;) {
        ssize_t n = ::read(fd, buf, sizeof buf);
        if (n < 0) {
            if (errno == EINTR)
                continue;
            break;
        }
        if (n == 0)
            break;
        r.append(buf, (std::size_t)n);
    }
    return r;
}

static void child_write(const std::string& r) {
    const char* p = r.data();
    std::size_t n = r.size();
    while (n && g_child_fd >= 0) {
        ssize_t w = ::write(g_child_fd, p, n);
        if (w < 0) {
            if (errno == EINTR)
                continue;
            break;
        }
        p += w;
        n -= (std::size_t)w;
    }
}

// Runs `body` in a forked child; the child's return string travels back over a pipe.
// Returns false if the child died (sanitizer abort, signal, timeout); status then holds waitpid status.
static bool in_child(const std::function<std::string()>& body, std::string& result, int& status) {
    int fds[2];
    if (::pipe(fds) != 0)
        _exit(4);
    std::fflush(stdout);
    std::fflush(stderr);
    pid_t pid = ::fork();
    if (pid < 0)
        _exit(4);
    if (pid == 0) {
        ::close(fds[0]);
        g_child_fd = fds[1];
        {
            // per-run watchdog: a plan executes in well under a second; a library call that never returns is a hang
            const char* w = std::getenv("TEAKSIM_WATCHDOG_S");
            ::alarm(w ? (unsigned)std::atoi(w) : 30);
        }
        std::string r = body();
        const char* p = r.data();
        std::size_t n = r.size();
        while (n) {
            ssize_t w = ::write(fds[1], p, n);
            if (w < 0) {
                if (errno == EINTR)
                    continue;
                break;
            }
            p += w;
            n -= (std::size_t)w;
        }
        ::close(fds[1]);
        std::fflush(stdout);
        std::fflush(stderr);
        _exit(0);
    }
    ::close(fds[1]);
    result = read_all_fd(fds[0]);
    ::close(fds[0]);
    status = 0;
    while (::waitpid(pid, &status, 0) < 0 && errno == EINTR) {
    }
    return WIFEXITED(status) && WEXITSTATUS(status) == 0;
}

} // namespace sim
namespace sim {
// Ends the current (forked) execution at once with the given outcome: used when the run cannot return
// normally (e.g. the simulated threads are deadlocked).
void emergency_finish(const Outcome& o) {
    std::string cap = capture_read();
    (void)cap;
    std::string r = outcome_to_text(o);
    if (g_child_fd >= 0) {
        const char* p = r.data();
        std::size_t n = r.size();
        while (n) {
            ssize_t w = ::write(g_child_fd, p, n);
            if (w <= 0)
                break;
            p += w;
            n -= (std::size_t)w;
        }
        std::fflush(nullptr);
        _exit(0);
    }
    std::fprintf(stderr, "emergency_finish outside a child: %s\n", o.cls.c_str());
    _exit(87);
}
} // namespace sim
namespace sim {
static Outcome crash_outcome(int status) {
    Outcome o;
    int code = WIFSIGNALED(status) ? -WTERMSIG(status) : WEXITSTATUS(status);
    o.cls = "CRASH";
    g_last_crash_text = capture_read();
    o.detail = fmt("child process died with status %d", code);
    o.hash = (u64)(s64)code;
    return o;
}

static Outcome run_plan(Scenario* sc, const Plan& plan) {
    if (!g_isolate)
        return run_plan_here(sc, plan);
    std::string text;
    int status = 0;
    bool ok = in_child([&]() { return outcome_to_text(run_plan_here(sc, plan)); }, text, status);
    if (!ok)
        return crash_outcome(status);
    Outcome o = outcome_from_text(text);
    if (o.cls == "CRASH")
        o.detail = "child result truncated";
    return o;
}

// generate + execute in one child (the generator may itself need a pristine instance)
static Outcome generate_and_run(Scenario* sc, u64 run_seed, const Tier& tier, const std::string& prop, Plan& plan_out, bool& have_plan) {
    have_plan = false;
    if (!g_isolate) {
        plan_out = sc->generate(run_seed, tier);
        plan_out.prop = prop;
        plan_out.seed = run_seed;
        have_plan = true;
        return run_plan_here(sc, plan_out);
    }
    std::string text;
    int status = 0;
    bool ok = in_child(
        [&]() {
            Plan p = sc->generate(run_seed, tier);
            p.prop = prop;
            p.seed = run_seed;
            std::string pt = p.to_text();
            // send the plan first so that it survives a crash or an emergency end of the execution
            child_write("PLANBYTES " + std::to_string(pt.size()) + "\n" + pt);
            return outcome_to_text(run_plan_here(sc, p));
        },
        text, status);
    if (text.rfind("PLANBYTES ", 0) == 0 && !ok) {
        // the plan arrived, the execution died
        std::size_t nl = text.find('\n');
        std::size_t n = std::strtoull(text.c_str() + 10, nullptr, 10);
        plan_out = Plan::from_text(text.substr(nl + 1, n));
        have_plan = true;
        return crash_outcome(status);
    }
    if (!ok || text.rfind("PLANBYTES ", 0) != 0) {
        std::string ptext;
        int st2 = 0;
        bool gok = in_child(
            [&]() {
                Plan p = sc->generate(run_seed, tier);
                p.prop = prop;
                p.seed = run_seed;
                return p.to_text();
            },
            ptext, st2);
        if (gok) {
            plan_out = Plan::from_text(ptext);
            have_plan = true;
        }
        return crash_outcome(status);
    }
    std::size_t nl = text.find('\n');
    std::size_t n = std::strtoull(text.c_str() + 10, nullptr, 10);
    plan_out = Plan::from_text(text.substr(nl + 1, n));
    have_plan = true;
    return outcome_from_text(text.substr(nl + 1 + n));
}

// ---------------------------------------------------------------- minimisation (ddmin over steps, then argument/knob simplification)
struct Minimizer {
    Scenario* sc;
    std::string cls;
    int reruns = 0;
    int max_reruns;
    std::chrono::steady_clock::time_point deadline;

    bool budget_left() const {
        return reruns < max_reruns && std::chrono::steady_clock::now() < deadline;
    }
    bool fails(const Plan& p) {
        ++reruns;
        Outcome o = run_plan(sc, p);
        return o.cls == cls;
    }

    Plan minimise(Plan p) {
        // 1. ddmin over steps
        std::size_t chunk = std::max<std::size_t>(1, p.steps.size() / 2);
        while (chunk >= 1 && budget_left() && !p.steps.empty()) {
            bool removed_any = false;
            for (std::size_t at = 0; at < p.steps.size() && budget_left();) {
                Plan q = p;
                std::size_t n = std::min(chunk, q.steps.size() - at);
                q.steps.erase(q.steps.begin() + (long)at, q.steps.begin() + (long)(at + n));
                if (fails(q)) {
                    p = q;
                    removed_any = true;
                } else {
                    at += n;
                }
            }
            if (chunk == 1 && !removed_any)
                break;
            if (!removed_any)
                chunk /= 2;
            else
                chunk = std::min(chunk, std::max<std::size_t>(1, p.steps.size() / 2));
            if (chunk == 0)
                break;
        }
        // 2. knobs to their simplest value
        for (auto& kv : sc->simplest_knobs()) {
            if (!budget_left())
                break;
            if (p.knob(kv.first, kv.second) == kv.second)
                continue;
            Plan q = p;
            q.set_knob(kv.first, kv.second);
            if (fails(q))
                p = q;
        }
        // 3. step arguments toward 0 / 1 / half
        for (std::size_t i = 0; i < p.steps.size() && budget_left(); ++i) {
            for (std::size_t j = 0; j < p.steps[i].a.size() && budget_left(); ++j) {
                s64 cur = p.steps[i].a[j];
                for (s64 cand : {(s64)0, (s64)1, cur / 2, cur - 1}) {
                    if (cand == cur || cand < 0 || !budget_left())
                        continue;
                    if (cand > cur)
                        continue;
                    Plan q = p;
                    q.steps[i].a[j] = cand;
                    if (fails(q)) {
                        p = q;
                        cur = cand;
                        if (cand == 0)
                            break;
                    }
                }
            }
        }
        // 4. one more single-step deletion pass (arguments changed)
        for (std::size_t at = 0; at < p.steps.size() && budget_left();) {
            Plan q = p;
            q.steps.erase(q.steps.begin() + (long)at);
            if (fails(q))
                p = q;
            else
                ++at;
        }
        return p;
    }
};

// ---------------------------------------------------------------- formatting of a RUN line
static std::string kvmap(const std::map<std::string, u64>& m) {
    std::string r;
    for (auto& kv : m) {
        if (!r.empty())
            r += ',';
        r += kv.first + ":" + std::to_string(kv.second);
    }
    return r.empty() ? "-" : r;
}

static void write_file(const std::string& path, const std::string& text) {
    std::ofstream f(path, std::ios::trunc);
    f << text;
}

static std::string read_file(const std::string& path) {
    std::ifstream f(path);
    std::stringstream ss;
    ss << f.rdbuf();
    return ss.str();
}

static u64 env_u64(const char* name, u64 dflt) {
    const char* v = std::getenv(name);
    if (!v || !*v)
        return dflt;
    return std::strtoull(v, nullptr, 0);
}

// ---------------------------------------------------------------- commands
static int cmd_worker(int argc, char** argv) {
    std::string prop = argv[2];
    u64 seed = 1, start = 0, stride = 1, max_runs = ~0ull;
    double budget_s = 10;
    std::string outdir = ".";
    Tier tier;
    int samples = 0;
    u64 recheck_every = 50;
    for (int i = 3; i < argc; ++i) {
        std::string a = argv[i];
        auto val = [&]() { return std::string(i + 1 < argc ? argv[++i] : ""); };
        if (a == "--seed")
            seed = std::strtoull(val().c_str(), nullptr, 0);
        else if (a == "--start")
            start = std::strtoull(val().c_str(), nullptr, 0);
        else if (a == "--stride")
            stride = std::strtoull(val().c_str(), nullptr, 0);
        else if (a == "--max-runs")
            max_runs = std::strtoull(val().c_str(), nullptr, 0);
        else if (a == "--budget-s")
            budget_s = std::atof(val().c_str());
        else if (a == "--outdir")
            outdir = val();
        else if (a == "--tier")
            tier.thorough = val() == "thorough";
        else if (a == "--samples")
            samples = std::atoi(val().c_str());
        else if (a == "--recheck-every")
            recheck_every = std::strtoull(val().c_str(), nullptr, 0);
    }
    Scenario* sc = find_scenario(prop);
    if (!sc) {
        std::fprintf(stderr, "unknown scenario %s\n", prop.c_str());
        return 2;
    }
    ::mkdir(outdir.c_str(), 0755);
    setup_fds(outdir + "/" + prop + "-w" + std::to_string(start) + "-" + std::to_string((long)::getpid()) + ".stderr");
    auto need = sc->pool_need();
    g_isolate = need.first + need.second > 0 && !std::getenv("TEAKSIM_NO_ISOLATE"); // coverage runs execute in-process
    if (g_isolate)
        prefill_pool(need.first, need.second);
    auto t0 = std::chrono::steady_clock::now(); // the budget counts simulation time, not the construction of the instance pool
    report(fmt("HELLO prop=%s seed=%llu start=%llu stride=%llu isolate=%d", prop.c_str(), (unsigned long long)seed,
               (unsigned long long)start, (unsigned long long)stride, g_isolate ? 1 : 0));
    u64 runs = 0;
    std::map<std::string, int> seen_classes;
    int total_viol = 0;
    for (u64 i = start; runs < max_runs && total_viol < 40; i += stride) {
        double el = std::chrono::duration<double>(std::chrono::steady_clock::now() - t0).count();
        if (el >= budget_s)
            break;
        u64 run_seed = mix(mix(seed, hash_str(prop.c_str())), i);
        report(fmt("START %llu", (unsigned long long)i));
        Plan plan;
        bool have_plan = false;
        Outcome out = generate_and_run(sc, run_seed, tier, prop, plan, have_plan);
        ++runs;
        if (!have_plan) {
            report(fmt("CRASHGEN %llu detail=%s", (unsigned long long)i, escape(out.detail).c_str()));
            continue;
        }
        bool rechecked = false;
        if (!out.ok() || (recheck_every && (i / stride) % recheck_every == 0)) {
            Outcome again = run_plan(sc, plan);
            rechecked = true;
            auto is_race = [](const std::string& c) { return c.find(".data-race") != std::string::npos; };
            // the schedule (hash) decides determinism; whether ThreadSanitizer still remembers the earlier access of a racing pair
            // does not, so a race reported in only one of two identical executions is kept as a candidate for the fresh-process gate
            bool same_schedule_race = again.hash == out.hash && (is_race(out.cls) || is_race(again.cls));
            if (same_schedule_race && !is_race(out.cls))
                out = again;
            if (!same_schedule_race && (again.hash != out.hash || again.cls != out.cls)) {
                std::string f = outdir + "/" + prop + "-" + std::to_string(run_seed) + ".nondet.plan";
                write_file(f, plan.to_text());
                report(fmt("NONDET %llu file=%s cls1=%s cls2=%s h1=%llx h2=%llx", (unsigned long long)i, f.c_str(),
                           out.cls.empty() ? "-" : out.cls.c_str(), again.cls.empty() ? "-" : again.cls.c_str(),
                           (unsigned long long)out.hash, (unsigned long long)again.hash));
                continue;
            }
        }
        std::string sigs;
        {
            int n = 0;
            for (u64 s : out.state_sigs) {
                if (n++ >= 128)
                    break;
                if (!sigs.empty())
                    sigs += ',';
                sigs += hex(s);
            }
            if (sigs.empty())
                sigs = "-";
        }
        report(fmt("RUN %llu ok=%d hash=%llx sig=%llx nontriv=%d cyc=%llu ab=%d shape=%llx steps=%zu rc=%d probes=%s fc=%s ff=%s ss=%s",
                   (unsigned long long)i, out.ok() ? 1 : 0, (unsigned long long)out.hash, (unsigned long long)out.sig,
                   out.nontrivial ? 1 : 0, (unsigned long long)out.sim_cycles, out.aborted ? 1 : 0,
                   (unsigned long long)plan.shape_hash(), plan.steps.size(), rechecked ? 1 : 0,
                   kvmap(out.probes).c_str(), kvmap(out.faults_configured).c_str(), kvmap(out.faults_fired).c_str(),
                   sigs.c_str()));
        if ((int)(i / stride) < samples && start == 0) {
            std::string f = outdir + "/" + prop + "-sample-" + std::to_string(i) + ".plan";
            write_file(f, plan.to_text());
            report("SAMPLE " + f);
        }
        if (!out.ok() && (++total_viol, seen_classes[out.cls]++ >= 2)) {
            // already minimised and reported twice by this worker: count only
            report(fmt("VIOLX %llu cls=%s", (unsigned long long)i, out.cls.c_str()));
        } else if (!out.ok()) {
            Minimizer m{sc, out.cls, 0, (int)env_u64("VERIF_SHRINK_RERUNS", 400),
                        std::chrono::steady_clock::now() + std::chrono::seconds(env_u64("VERIF_SHRINK_S", 20))};
            std::size_t before = plan.steps.size();
            Plan small = m.minimise(plan);
            Outcome fin = run_plan(sc, small);
            if (fin.cls != out.cls) { // cannot happen unless nondeterministic
                small = plan;
                fin = out;
            }
            small.expect_class = fin.cls;
            small.expect_detail = fin.detail;
            std::string f = outdir + "/" + prop + "-" + std::to_string(run_seed) + ".plan";
            write_file(f, small.to_text());
            report(fmt("VIOL %llu cls=%s file=%s steps=%zu from=%zu reruns=%d detail=%s", (unsigned long long)i,
                       fin.cls.c_str(), f.c_str(), small.steps.size(), before, m.reruns, escape(fin.detail).c_str()));
        }
    }
    report(fmt("DONE runs=%llu", (unsigned long long)runs));
    return 0;
}

static int cmd_genplan(int argc, char** argv) {
    // teaksim genplan <prop> <seed> <index> [thorough]
    if (argc < 5)
        return 2;
    std::string prop = argv[2];
    u64 seed = std::strtoull(argv[3], nullptr, 0);
    u64 index = std::strtoull(argv[4], nullptr, 0);
    Tier tier;
    tier.thorough = argc > 5 && std::string(argv[5]) == "thorough";
    Scenario* sc = find_scenario(prop);
    if (!sc)
        return 2;
    u64 run_seed = mix(mix(seed, hash_str(prop.c_str())), index);
    int real_out = ::dup(1);
    int nul = ::open("/dev/null", O_WRONLY);
    ::dup2(nul, 1);
    Plan plan = sc->generate(run_seed, tier);
    plan.prop = prop;
    plan.seed = run_seed;
    std::fflush(stdout);
    ::dup2(real_out, 1);
    std::fputs(plan.to_text().c_str(), stdout);
    return 0;
}

static int cmd_replay(int argc, char** argv) {
    // teaksim replay <file>   exit: 0 = no violation, 1 = violation reproduced with the expected class,
    //                                3 = a different class, 4 = not deterministic, 5 = the run kills its process, 2 = usage
    if (argc < 3)
        return 2;
    std::string path = argv[2];
    Plan plan = Plan::from_text(read_file(path));
    Scenario* sc = find_scenario(plan.prop);
    if (!sc) {
        std::fprintf(stderr, "unknown scenario '%s' in %s\n", plan.prop.c_str(), path.c_str());
        return 2;
    }
    setup_fds(path + ".stderr");
    auto need = sc->pool_need();
    g_isolate = need.first + need.second > 0 && !std::getenv("TEAKSIM_NO_ISOLATE"); // coverage runs execute in-process
    Outcome out = run_plan(sc, plan);
    if (out.cls == "CRASH") {
        report(fmt("REPLAY cls=CRASH hash=%llx deterministic=1 aborted=0 detail=%s", (unsigned long long)out.hash,
                   escape(out.detail).c_str()));
        // leave the sanitizer report in <file>.stderr for the driver
        write_file(path + ".stderr", g_last_crash_text);
        return 5;
    }
    Outcome again = run_plan(sc, plan);
    bool det = again.hash == out.hash && again.cls == out.cls;
    report(fmt("REPLAY cls=%s hash=%llx deterministic=%d aborted=%d detail=%s", out.cls.empty() ? "-" : out.cls.c_str(),
               (unsigned long long)out.hash, det ? 1 : 0, out.aborted ? 1 : 0, escape(out.detail).c_str()));
    for (auto& n : out.notes)
        report("NOTE " + escape(n));
    if (!det)
        return 4;
    if (out.cls.empty())
        return 0;
    if (plan.expect_class.empty() || plan.expect_class == out.cls)
        return 1;
    return 3;
}

static int cmd_list() {
    for (auto* s : registry())
        std::printf("%s\n", s->prop());
    return 0;
}

static int cmd_info(int argc, char** argv) {
    if (argc < 3)
        return 2;
    Scenario* sc = find_scenario(argv[2]);
    if (!sc)
        return 2;
    std::printf("real=%s\nstub=%s\nrule=%s\n", sc->components_real(), sc->components_stub(), sc->nontrivial_rule());
    return 0;
}

} // namespace sim

int main(int argc, char** argv) {
    if (argc < 2) {
        std::fprintf(stderr, "usage: teaksim worker|replay|genplan|list|info ...\n");
        return 2;
    }
    std::string cmd = argv[1];
    if (cmd == "worker" && argc >= 3)
        return sim::cmd_worker(argc, argv);
    if (cmd == "replay")
        return sim::cmd_replay(argc, argv);
    if (cmd == "genplan")
        return sim::cmd_genplan(argc, argv);
    if (cmd == "list")
        return sim::cmd_list();
    if (cmd == "info")
        return sim::cmd_info(argc, argv);
    return 2;
}
