#include "hostops.h"

namespace sim {

const std::vector<MmioField>& mmio_fields() {
    static std::vector<MmioField> v;
    if (v.empty()) {
        for (u16 base : {0x20, 0x30}) {
            v.push_back({base, 0x071F});
            v.push_back({(u16)(base + 2), 0xFFFF});
            for (u16 o = 4; o <= 0xA; o += 2)
                v.push_back({(u16)(base + o), 0xFFFF});
        }
        for (u16 o : {0x0C0, 0x0C4, 0x0C8, 0x0CC, 0x0CE, 0x0D0, 0x0D2})
            v.push_back({o, 0xFFFF});
        v.push_back({0x0D4, 0x3100});
        v.push_back({0x0D6, 0x33E0});
        v.push_back({0x0D8, 0xFE00});
        v.push_back({0x0E0, 0xFFFF});
        for (u16 i = 0; i < 3; ++i) {
            v.push_back({(u16)(0x0E2 + i * 6), 0x0036});
            v.push_back({(u16)(0x0E4 + i * 6), 0x0100});
            v.push_back({(u16)(0x0E6 + i * 6), 0xFFFF});
        }
        for (u16 o : {0x10E, 0x110, 0x112})
            v.push_back({o, 0xFFFF});
        v.push_back({0x114, 0x3F3F});
        v.push_back({0x116, 0x3F3F});
        v.push_back({0x11A, 0x0040});
        v.push_back({0x11E, 0xFFFF});
        v.push_back({0x184, 0xFFFF});
        v.push_back({0x1BE, 0xFFFF});
        for (u16 o = 0x1C0; o <= 0x1D8; o += 2)
            v.push_back({o, 0xFFFF});
        v.push_back({0x1DA, 0x04FF});
        v.push_back({0x1DC, 0xFFFF});
        v.push_back({0x1DE, 0xFFFF});
        for (u16 o = 0x200; o <= 0x20C; o += 2)
            v.push_back({o, 0xFFFF});
        for (u16 i = 0; i < 16; ++i) {
            v.push_back({(u16)(0x212 + i * 4), 0x8003});
            v.push_back({(u16)(0x214 + i * 4), 0xFFFF});
        }
        for (u16 i = 0; i < 2; ++i) {
            v.push_back({(u16)(0x2A2 + i * 0x80), 0xFFFF});
            v.push_back({(u16)(0x2BE + i * 0x80), 0xFFFF});
            v.push_back({(u16)(0x2C2 + i * 0x80), 0x0018});
            v.push_back({(u16)(0x2CA + i * 0x80), 0xFFFF});
        }
    }
    return v;
}

u16 modelled_mask_of(u16 off) {
    for (auto& f : mmio_fields())
        if (f.off == off)
            return f.modelled_mask;
    return 0;
}

namespace {
// fields a host may write freely, with the mask of values that stay inside documented behaviour
struct Writable {
    u16 off;
    u16 mask;
};
const Writable kWritable[] = {
    {0x20, 0x070C},  {0x30, 0x070C},  {0x22, 0x0001},  {0x32, 0x0001},  {0x24, 0xFFFF},  {0x26, 0x0001},  {0x34, 0xFFFF},
    {0x36, 0x0001},  {0x28, 0xFFFF},  {0x2A, 0xFFFF},  {0x0C0, 0xFFFF}, {0x0C4, 0xFFFF}, {0x0C8, 0xFFFF}, {0x0CC, 0xFFFF},
    {0x0CE, 0xFFFF}, {0x0D0, 0xFFFF}, {0x0D4, 0x3104}, {0x0E2, 0x0036}, {0x0E4, 0x0100}, {0x0E6, 0x00FF}, {0x0E8, 0x0036},
    {0x0EA, 0x0100}, {0x0EC, 0x00FF}, {0x10E, 0x0001}, {0x110, 0x0001}, {0x114, 0x3F3F}, {0x116, 0x3F3F}, {0x184, 0x00FF},
    {0x1BE, 0x0007}, {0x1C0, 0xFFFF}, {0x1C2, 0xFFFF}, {0x1C4, 0xFFFF}, {0x1C6, 0xFFFF}, {0x1C8, 0xFFFF}, {0x1CA, 0xFFFF},
    {0x1CC, 0xFFFF}, {0x1CE, 0xFFFF}, {0x1D0, 0xFFFF}, {0x1D2, 0xFFFF}, {0x1D4, 0xFFFF}, {0x1D6, 0xFFFF}, {0x1D8, 0xFFFF},
    {0x1DA, 0x04FF}, {0x1DC, 0xFFFF}, {0x202, 0xFFFF}, {0x204, 0xFFFF}, {0x206, 0xFFFF}, {0x208, 0xFFFF}, {0x20A, 0xFFFF},
    {0x20C, 0xFFFF}, {0x212, 0x8000}, {0x214, 0x03FF}, {0x23A, 0x8000}, {0x23C, 0x03FF}, {0x24A, 0x8000}, {0x24C, 0x03FF},
    {0x2A2, 0xFFFF}, {0x2BE, 0x0001}, {0x2C6, 0xFFFF}, {0x2CA, 0x0001}, {0x322, 0xFFFF}, {0x33E, 0x0001}, {0x346, 0xFFFF},
    {0x34A, 0x0001}, {0x02C, 0xFFFF}, {0x118, 0xFFFF},
};
} // namespace

void gen_fw_knobs(Rng& r, Plan& p) {
    static const u32 starts[] = {0, 1, 2, 3, 4, 5, 6, 8, 13, 21, 40, 100, 0xFFFF, 0x10000, 0x10001, 0xFFFFFFFFu};
    u16 mod3 = 0x80;
    if (r.chance(9, 10))
        mod3 |= 0x100;
    if (r.chance(2, 3))
        mod3 |= 0x200;
    if (r.chance(2, 3))
        mod3 |= 0x400;
    if (r.chance(1, 2))
        mod3 |= 0x800;
    mod3 |= (u16)(r.below(8) << 1);
    mod3 |= (u16)(r.below(2) << 13 | r.below(2) << 14 | r.below(2) << 15);
    p.set_knob("mod3", mod3);
    const u16 irqs[6] = {1 << 9, 1 << 10, 1 << 11, 1 << 12, 1 << 14, 1 << 15};
    u16 en[3] = {0, 0, 0}, env = 0;
    for (u16 bit : irqs) {
        int where = (int)r.below(6);
        if (where < 3)
            en[where] |= bit;
        else if (where == 3)
            env |= bit;
        else if (where == 4) {
            en[r.below(3)] |= bit;
            env |= bit;
        }
    }
    p.set_knob("en0", en[0]);
    p.set_knob("en1", en[1]);
    p.set_knob("en2", en[2]);
    p.set_knob("env", env);
    p.set_knob("vctx", (s64)r.below(2));
    for (int i = 0; i < 2; ++i) {
        bool on = r.chance(i == 0 ? 9 : 5, 10);
        int mode = on ? (int)r.below(4) : 0;
        u32 start = on ? (r.chance(3, 4) ? r.pick(starts) : (u32)r.range(0, 300)) : 0;
        p.set_knob("t" + std::to_string(i) + "cfg", timer_cfg_word(mode, r.chance(1, 12), r.chance(1, 2), false));
        p.set_knob("t" + std::to_string(i) + "start", start);
    }
    bool bt = r.chance(1, 2);
    p.set_knob("bt_en", bt);
    p.set_knob("bt_words", bt ? (s64)r.below(19) : 0);
    bool bt1 = r.chance(1, 3);
    p.set_knob("bt1_en", bt1);
    p.set_knob("bt1_words", bt1 ? (s64)r.below(19) : 0);
    p.set_knob("busy", (s64)r.below(7));
    p.set_knob("main", (s64)(r.chance(1, 8) ? 1 : r.chance(1, 5) ? 2 : 0));
    for (int h = 0; h < 4; ++h) {
        u16 act = 0;
        if (r.chance(1, 3))
            act |= HA_RESTART_T0;
        if (r.chance(1, 6))
            act |= HA_RESTART_T1;
        if (r.chance(1, 4))
            act |= HA_AUDIO;
        if (r.chance(1, 3))
            act |= HA_REPLY;
        if (r.chance(1, 3))
            act |= HA_ACK;
        if (r.chance(1, 6))
            act |= HA_TRIGGER;
        p.set_knob("h" + std::to_string(h) + "act", act);
        p.set_knob("h" + std::to_string(h) + "par", (s64)r.below(0x300));
    }
}

void gen_host_op(Rng& r, Plan& p, bool allow_run, int max_run) {
    int x = (int)r.below(100);
    if (allow_run && x < 22) {
        p.add("run", {(s64)(r.chance(1, 3) ? r.range(0, 12) : r.range(1, max_run))});
    } else if (x < 34) {
        const Writable& w = r.pick(kWritable);
        u16 v = (u16)(r.chance(1, 4) ? w.mask : (r.next() & w.mask));
        p.add("mmiow", {(s64)w.off + (r.chance(1, 8) ? 0x800 * (s64)r.below(4) : 0), (s64)v});
    } else if (x < 42) {
        p.add("send", {(s64)r.below(3), (s64)(r.next() & 0xFFFF)});
    } else if (x < 47) {
        p.add("recv", {(s64)r.below(3)});
    } else if (x < 52) {
        p.add("sem", {(s64)(r.chance(1, 2) ? (1u << r.below(16)) : (r.next() & 0xFFFF))});
    } else if (x < 55) {
        p.add("clrsem", {(s64)(r.next() & 0xFFFF)});
    } else if (x < 58) {
        p.add("masksem", {(s64)(r.chance(1, 2) ? 0 : (r.next() & 0xFFFF))});
    } else if (x < 66) {
        p.add("trig", {(s64)(r.chance(3, 4) ? (1u << (9 + r.below(7) % 7)) : (r.next() & 0xFFFF))});
    } else if (x < 72) {
        p.add("dataw", {(s64)(r.chance(1, 2) ? r.below(0x2000) : (r.next() & 0x7FFF)), (s64)(r.next() & 0xFFFF)});
    } else if (x < 74) {
        p.add("progw", {(s64)(0x1000 + r.below(0x3000)), (s64)(r.next() & 0xFFFF)});
    } else if (x < 76) {
        // a write through the raw memory pointer the host fetched when the machine was built (the library is not told)
        p.add("raww", {(s64)(r.chance(1, 2) ? 0x1000 + r.below(0x3000) : 0x20000 + r.below(0x8000)), (s64)(1 + (r.next() & 0xFFFE))});
    } else if (x < 77) {
        p.add("dma", {(s64)r.below(8), (s64)r.below(0x7000), (s64)r.below(0x7000), (s64)r.range(1, 8)});
    } else if (x < 82) {
        // few DMA channels, so that a claim made before a Reset and an unclaimed transfer after it meet on the same one
        p.add("dmax", {(s64)(r.chance(2, 3) ? r.below(2) : r.below(8)), (s64)(r.chance(1, 2) ? 3 : r.below(3)), (s64)r.below(2), (s64)r.below(2), (s64)r.below(0x7000),
                       (s64)r.below(64), (s64)r.range(1, 6)});
    } else if (x < 90) {
        p.add("mmior", {(s64)mmio_fields()[r.below(mmio_fields().size())].off});
    } else if (x < 93) {
        p.add("fw", {});
    } else if (x < 96) {
        // AHBM accessors with a burst that may be left half-filled
        p.add("ahbm", {(s64)r.below(3), (s64)r.range(1, 2), (s64)r.below(2), (s64)r.range(1, 5), (s64)(0x20000000 + 4 * r.below(64)), (s64)(r.next() & 0xFFFF)});
    } else {
        p.add("audio", {(s64)(r.next() & 0xFFFF)});
    }
}

u64 apply_host_op(Box& b, FwConfig& fw, const Plan& plan, const Step& s, std::string& abort_site) {
    auto& t = *b.t;
    try {
        if (s.op == "run") {
            abort_site = b.run((u64)std::min<s64>(s.arg(0), 40000));
            return 0;
        }
        if (s.op == "fw") {
            fw_from_plan(plan, fw);
            Asm a;
            fw_build(fw, a);
            for (auto& kv : a.words)
                t.ProgramWrite(kv.first, kv.second);
            fw_host_setup(b, fw);
            return 0;
        }
        if (s.op == "mmiow") {
            t.MMIOWrite((u16)s.arg(0), (u16)s.arg(1));
            return 0;
        }
        if (s.op == "raww") {
            b.poke_prog((u32)(s.arg(0) & 0x3FFFF), (u16)s.arg(1));
            return 0;
        }
        if (s.op == "mmior") {
            u16 off = (u16)(s.arg(0) & 0x7FF);
            if (off == 0x0C2 || off == 0x0C6 || off == 0x0CA)
                return 0;
            if (off >= 0x1C0 && off <= 0x1DE && t.MMIORead(0x1BE) >= 8)
                return 0;
            // only the modelled bits take part in the twins' comparison: the storage-only bits of a cell (e.g. bits 2..14 of a
            // vector's high word) are outside the Reset clause of C17; the heap-poison mode compares all 0x800 offsets unmasked
            u16 mask = 0xFFFF;
            for (auto& f : mmio_fields())
                if (f.off == off)
                    mask = f.modelled_mask;
            return (u64)(t.MMIORead((u16)s.arg(0)) & mask);
        }
        if (s.op == "send") {
            t.SendData((u8)(s.arg(0) % 3), (u16)s.arg(1));
            return 0;
        }
        if (s.op == "recv") {
            u8 ch = (u8)(s.arg(0) % 3);
            return t.RecvDataIsReady(ch) ? t.RecvData(ch) : 0x10000;
        }
        if (s.op == "sem") {
            t.SetSemaphore((u16)s.arg(0));
            return 0;
        }
        if (s.op == "clrsem") {
            t.ClearSemaphore((u16)s.arg(0));
            return 0;
        }
        if (s.op == "masksem") {
            t.MaskSemaphore((u16)s.arg(0));
            return 0;
        }
        if (s.op == "trig") {
            t.MMIOWrite(0x204, (u16)s.arg(0));
            return 0;
        }
        if (s.op == "dataw") {
            t.DataWrite((u16)s.arg(0), (u16)s.arg(1), true);
            return 0;
        }
        if (s.op == "progw") {
            t.ProgramWrite((u32)(s.arg(0) & 0x3FFFF), (u16)s.arg(1));
            return 0;
        }
        if (s.op == "audio") {
            t.MMIOWrite(0x2C6, (u16)s.arg(0));
            return 0;
        }
        if (s.op == "ahbm") {
            int burst = (int)(s.arg(0) % 3), unit = (int)(1 + s.arg(1) % 2);
            bool write = s.arg(2) & 1;
            t.MMIOWrite(0x0E2, (u16)(burst << 1 | unit << 4));
            t.MMIOWrite(0x0E4, (u16)((write ? 1 : 0) << 8));
            u64 acc = 0;
            u32 a = (u32)s.arg(4);
            for (s64 i = 0; i < std::min<s64>(s.arg(3), 8); ++i, a += (unit == 2 ? 4 : 2)) {
                if (write) {
                    if (unit == 2)
                        t.AHBMWrite32(a, (u32)(s.arg(5) * 65537u + (u32)i));
                    else
                        t.AHBMWrite16(a, (u16)(s.arg(5) + i));
                } else {
                    acc = acc * 31 + (unit == 2 ? t.AHBMRead32(a) : t.AHBMRead16(a));
                }
            }
            return acc & 0xFFFFFFFF;
        }
        if (s.op == "dmax") {
            // a short DMA between DSP memory and external memory through the AHBM. arg1 < 3: that AHBM channel is configured and
            // claims the DMA channel first; arg1 == 3: only AHBM channel 0's unit/direction are written and NO claim register is
            // touched - the transfer takes whatever routing the machine's history (or its Reset) left behind
            u16 c = (u16)(s.arg(0) & 7);
            int k = (int)(s.arg(1) & 3);
            bool to_ext = s.arg(2) & 1;
            int unit = (int)(1 + (s.arg(3) & 1)); // 1: 16 bit, 2: 32 bit
            u16 base = (u16)(0x0E2 + 6 * (k < 3 ? k : 0));
            t.MMIOWrite(base, (u16)(unit << 4));
            t.MMIOWrite((u16)(base + 2), (u16)((to_ext ? 1 : 0) << 8));
            if (k < 3)
                t.MMIOWrite((u16)(base + 4), (u16)(1u << c));
            u16 keep = t.MMIORead(0x1BE);
            u32 dsp = (u32)(s.arg(4) & 0x7FFE), ext = 0x20000000u + (u32)((s.arg(5) & 0xFF) * 4);
            u32 n = (u32)std::max<s64>(1, std::min<s64>(s.arg(6), 8));
            u16 step = (u16)(unit == 2 ? 2 : 1);
            t.MMIOWrite(0x1BE, c);
            t.MMIOWrite(0x1C0, (u16)(to_ext ? dsp : ext));
            t.MMIOWrite(0x1C2, (u16)((to_ext ? dsp : ext) >> 16));
            t.MMIOWrite(0x1C4, (u16)(to_ext ? ext : dsp));
            t.MMIOWrite(0x1C6, (u16)((to_ext ? ext : dsp) >> 16));
            t.MMIOWrite(0x1C8, (u16)n);
            t.MMIOWrite(0x1CA, 1);
            t.MMIOWrite(0x1CC, 1);
            t.MMIOWrite(0x1CE, (u16)(to_ext ? step : step * 2)); // external addresses are byte addresses
            t.MMIOWrite(0x1D0, (u16)(to_ext ? step * 2 : step));
            t.MMIOWrite(0x1DA, (u16)((to_ext ? 0x0070 : 0x0007) | (unit == 2 ? 1 << 10 : 0)));
            t.MMIOWrite(0x1DE, 0x40C0);
            if (keep < 8)
                t.MMIOWrite(0x1BE, keep);
            return 0;
        }
        if (s.op == "dma") { // small in-range DSP->DSP copy on channel c
            u16 c = (u16)(s.arg(0) & 7);
            u16 keep = t.MMIORead(0x1BE);
            t.MMIOWrite(0x1BE, c);
            t.MMIOWrite(0x1C0, (u16)(s.arg(1) & 0x7FFF));
            t.MMIOWrite(0x1C2, 0);
            t.MMIOWrite(0x1C4, (u16)(s.arg(2) & 0x7FFF));
            t.MMIOWrite(0x1C6, 0);
            t.MMIOWrite(0x1C8, (u16)std::max<s64>(1, std::min<s64>(s.arg(3), 64)));
            t.MMIOWrite(0x1CA, 1);
            t.MMIOWrite(0x1CC, 1);
            t.MMIOWrite(0x1CE, 1);
            t.MMIOWrite(0x1D0, 1);
            t.MMIOWrite(0x1DA, 0);
            t.MMIOWrite(0x1DE, 0x40C0);
            if (keep < 8 && (s.arg(0) & 8) == 0)
                t.MMIOWrite(0x1BE, keep);
            return 0;
        }
    } catch (const VerifAssert& a) {
        abort_site = a.file + ":" + std::to_string(a.line) + ":" + a.expr;
        return 0;
    }
    return ~0ull;
}

} // namespace sim
