#!/usr/bin/env python3
"""Build teaksim flavours from the *current working tree* of the repository under test.

Every object is cached by content hash (compiler, flags, source text, digest of all headers it can
see), so an unchanged tree compiles once per flavour and an edited file recompiles only what depends
on it.  usage: build.py <flavour>|all [--repo DIR] [--quiet]     prints the path of each binary.
"""
import concurrent.futures
import fcntl
import glob
import hashlib
import os
import subprocess
import sys
import time

VERIF = os.path.dirname(os.path.abspath(__file__))
CACHE = os.path.join(VERIF, ".build")
GUARD = "TEAKRA_VERIF"

TEAKRA_SRCS = ["ahbm.cpp", "apbp.cpp", "btdmp.cpp", "dma.cpp", "timer.cpp", "memory_interface.cpp",
               "mmio.cpp", "processor.cpp", "teakra.cpp"]

COMMON = ["-std=c++17", "-O1", "-fno-omit-frame-pointer", "-D" + GUARD, "-pthread", "-w"]

TSAN_WRAPS = ['pthread_mutex_lock',
              'pthread_mutex_unlock',
              'pthread_mutex_trylock',
              '__tsan_atomic8_load',
              '__tsan_atomic8_store',
              '__tsan_atomic8_exchange',
              '__tsan_atomic8_fetch_add',
              '__tsan_atomic8_fetch_sub',
              '__tsan_atomic8_fetch_and',
              '__tsan_atomic8_fetch_or',
              '__tsan_atomic8_fetch_xor',
              '__tsan_atomic8_fetch_nand',
              '__tsan_atomic8_compare_exchange_strong',
              '__tsan_atomic8_compare_exchange_weak',
              '__tsan_atomic16_load',
              '__tsan_atomic16_store',
              '__tsan_atomic16_exchange',
              '__tsan_atomic16_fetch_add',
              '__tsan_atomic16_fetch_sub',
              '__tsan_atomic16_fetch_and',
              '__tsan_atomic16_fetch_or',
              '__tsan_atomic16_fetch_xor',
              '__tsan_atomic16_fetch_nand',
              '__tsan_atomic16_compare_exchange_strong',
              '__tsan_atomic16_compare_exchange_weak',
              '__tsan_atomic32_load',
              '__tsan_atomic32_store',
              '__tsan_atomic32_exchange',
              '__tsan_atomic32_fetch_add',
              '__tsan_atomic32_fetch_sub',
              '__tsan_atomic32_fetch_and',
              '__tsan_atomic32_fetch_or',
              '__tsan_atomic32_fetch_xor',
              '__tsan_atomic32_fetch_nand',
              '__tsan_atomic32_compare_exchange_strong',
              '__tsan_atomic32_compare_exchange_weak',
              '__tsan_atomic64_load',
              '__tsan_atomic64_store',
              '__tsan_atomic64_exchange',
              '__tsan_atomic64_fetch_add',
              '__tsan_atomic64_fetch_sub',
              '__tsan_atomic64_fetch_and',
              '__tsan_atomic64_fetch_or',
              '__tsan_atomic64_fetch_xor',
              '__tsan_atomic64_fetch_nand',
              '__tsan_atomic64_compare_exchange_strong',
              '__tsan_atomic64_compare_exchange_weak']

FLAVOURS = {
    "asan": dict(cxx="clang++",
                 flags=COMMON + ["-gline-tables-only", "-fsanitize=address,undefined", "-D_GLIBCXX_ASSERTIONS"],
                 link=["-fsanitize=address,undefined"]),
    "plain": dict(cxx="g++", flags=COMMON + ["-g1"], link=[]),
    "tsan": dict(cxx="clang++", flags=COMMON + ["-gline-tables-only", "-fsanitize=thread", "-DTEAKSIM_TSAN"],
                 link=["-fsanitize=thread"] + ["-Wl,--wrap=" + s for s in TSAN_WRAPS]),
    # coverage measurement only (tools/coverage.sh): which lines of the repository the scenarios reach
    "cov": dict(cxx="clang++", flags=COMMON + ["-gline-tables-only", "-fprofile-instr-generate", "-fcoverage-mapping"],
                link=["-fprofile-instr-generate"]),
}


def sha(*parts):
    h = hashlib.sha256()
    for p in parts:
        if isinstance(p, str):
            p = p.encode()
        h.update(p)
        h.update(b"\0")
    return h.hexdigest()[:32]


def digest_files(paths):
    h = hashlib.sha256()
    for p in sorted(paths):
        h.update(p.encode())
        with open(p, "rb") as f:
            h.update(hashlib.sha256(f.read()).digest())
    return h.hexdigest()


def headers_under(*dirs):
    out = []
    for d in dirs:
        for root, _, files in os.walk(d):
            for f in files:
                if f.endswith((".h", ".hpp", ".inc")):
                    out.append(os.path.join(root, f))
    return out


def sim_sources(flavour):
    core = sorted(glob.glob(os.path.join(VERIF, "sim/core/*.cpp")))
    scen = sorted(glob.glob(os.path.join(VERIF, "sim/scenarios/*.cpp")))
    sched = sorted(glob.glob(os.path.join(VERIF, "sim/sched/*.cpp")))
    if flavour == "tsan":
        scen = [s for s in scen if s.endswith("_tsan.cpp")]
        return core + scen, sched
    scen = [s for s in scen if not s.endswith("_tsan.cpp")]
    return core + scen, []


def build(flavour, repo, quiet=False):
    cfg = FLAVOURS[flavour]
    os.makedirs(os.path.join(CACHE, "obj"), exist_ok=True)
    os.makedirs(os.path.join(CACHE, "bin"), exist_ok=True)
    inc = ["-I" + os.path.join(repo, "include"), "-I" + os.path.join(repo, "src"),
           "-I" + os.path.join(repo, "include/teakra/impl"), "-I" + os.path.join(VERIF, "sim")]
    repo_hdr = digest_files(headers_under(os.path.join(repo, "src"), os.path.join(repo, "include")))
    sim_hdr = digest_files(headers_under(os.path.join(VERIF, "sim")))
    jobs = []  # (src, obj, cmd)
    objs = []
    ver = subprocess.run([cfg["cxx"], "--version"], capture_output=True, text=True).stdout.splitlines()[0]

    def add(src, flags, hdr_digest, cxx):
        with open(src, "rb") as f:
            text = f.read()
        # the path of the file is part of the key only through its basename (diagnostics embed it)
        key = sha(ver, " ".join(flags), os.path.basename(src), text, hdr_digest, repo if src.startswith(repo) else "")
        obj = os.path.join(CACHE, "obj", key + ".o")
        objs.append(obj)
        if not os.path.exists(obj):
            jobs.append((src, obj, [cxx] + flags + inc + ["-c", src, "-o"]))
        else:
            os.utime(obj)

    for s in TEAKRA_SRCS:
        add(os.path.join(repo, "src", s), cfg["flags"], repo_hdr, cfg["cxx"])
    sim_srcs, unsan = sim_sources(flavour)
    for s in sim_srcs:
        add(s, cfg["flags"], repo_hdr + sim_hdr, cfg["cxx"])
    for s in unsan:  # scheduler: compiled WITHOUT the sanitizer so its hand-off is invisible to TSan
        add(s, COMMON + ["-g1"], sim_hdr, "clang++")

    def compile_one(job):
        src, obj, cmd = job
        tmp = obj + ".tmp%d" % os.getpid()
        t0 = time.time()
        r = subprocess.run(cmd + [tmp], capture_output=True, text=True)
        if r.returncode != 0:
            try:
                os.unlink(tmp)
            except OSError:
                pass
            return (src, r.returncode, r.stderr, time.time() - t0)
        os.replace(tmp, obj)
        return (src, 0, "", time.time() - t0)

    if jobs:
        # longest first: processor.cpp dominates
        jobs.sort(key=lambda j: 0 if j[0].endswith("processor.cpp") else 1)
        with concurrent.futures.ThreadPoolExecutor(max_workers=min(16, os.cpu_count() or 4)) as ex:
            for src, rc, err, dt in ex.map(compile_one, jobs):
                if not quiet:
                    print("  [%s] %-28s %5.1fs %s" % (flavour, os.path.basename(src), dt, "ok" if rc == 0 else "FAILED"),
                          file=sys.stderr)
                if rc != 0:
                    sys.stderr.write(err[-4000:])
                    raise SystemExit(2)
    link_key = sha(flavour, " ".join(cfg["link"]), *objs)
    exe = os.path.join(CACHE, "bin", "teaksim-%s-%s" % (flavour, link_key))
    if not os.path.exists(exe):
        tmp = exe + ".tmp%d" % os.getpid()
        cmd = [cfg["cxx"]] + cfg["link"] + objs + ["-pthread", "-o", tmp]
        r = subprocess.run(cmd, capture_output=True, text=True)
        if r.returncode != 0:
            sys.stderr.write(r.stderr[-4000:])
            raise SystemExit(2)
        os.replace(tmp, exe)
    else:
        os.utime(exe)
    if flavour == "tsan":
        check_tsan_symbols(objs[:len(TEAKRA_SRCS)])
    return exe


def check_tsan_symbols(teakra_objs):
    """Every synchronisation primitive teakra references must be one the scheduler wraps (DESIGN 2.3)."""
    bad = set()
    for o in teakra_objs:
        out = subprocess.run(["nm", "-u", o], capture_output=True, text=True).stdout
        for line in out.splitlines():
            sym = line.split()[-1]
            if sym.startswith(("pthread_mutex_", "pthread_cond_", "pthread_rwlock_", "__tsan_atomic")):
                if sym not in TSAN_WRAPS and sym not in ("pthread_mutex_init", "pthread_mutex_destroy",
                                                         "__tsan_atomic_thread_fence", "__tsan_atomic_signal_fence"):
                    bad.add(sym)
    if bad:
        sys.stderr.write("build.py: teakra references synchronisation symbols the scheduler does not wrap: %s\n"
                         % " ".join(sorted(bad)))
        raise SystemExit(2)


def prune(limit_bytes=3 << 30):
    files = []
    for sub in ("obj", "bin"):
        d = os.path.join(CACHE, sub)
        if os.path.isdir(d):
            for f in os.listdir(d):
                p = os.path.join(d, f)
                try:
                    st = os.stat(p)
                    files.append((st.st_mtime, st.st_size, p))
                except OSError:
                    pass
    total = sum(f[1] for f in files)
    for mtime, size, p in sorted(files):
        if total <= limit_bytes:
            break
        try:
            os.unlink(p)
            total -= size
        except OSError:
            pass


def main():
    args = sys.argv[1:]
    repo = os.environ.get("TEAKRA_REPO", "/repo")
    quiet = False
    flav = []
    i = 0
    while i < len(args):
        if args[i] == "--repo":
            repo = args[i + 1]
            i += 2
        elif args[i] == "--quiet":
            quiet = True
            i += 1
        else:
            flav.append(args[i])
            i += 1
    repo = os.path.abspath(repo)
    if not flav or flav == ["all"]:
        flav = ["asan", "plain", "tsan"]
    os.makedirs(CACHE, exist_ok=True)
    with open(os.path.join(CACHE, "lock"), "w") as lk:
        fcntl.flock(lk, fcntl.LOCK_EX)
        for f in flav:
            print(build(f, repo, quiet))
        prune()


if __name__ == "__main__":
    main()
