#!/bin/bash
# usage: tools/seeded_eval.sh <id> <Cxx> <agent-out-dir> [more Cxx checks to try...]
# Confirms a seeded breaking change independently (compiles, baseline tests pass, demo fails with it and
# passes without it) in a scratch copy, then applies it to /repo, runs the check(s), and undoes it.
# Writes seeded/<id>/{patch.diff,demo*,build_and_run.sh,notes.md,meta.json,check_<Cxx>.log}.
set -u
ID=$1; PROP=$2; SRC=$3; shift 3; EXTRA="$*"
D=/verif/seeded/$ID; mkdir -p $D
cp $SRC/patch.diff $D/; cp $SRC/build_and_run.sh $D/ 2>/dev/null; cp $SRC/notes.md $D/ 2>/dev/null
for f in $SRC/*.cpp $SRC/*.h; do [ -f "$f" ] && cp $f $D/; done
S=$(mktemp -d /tmp/teakra-seed-XXXXXX); trap 'rm -rf "$S"' EXIT
rsync -a --exclude _build --exclude .git /repo/ $S/repo/
mkdir -p $S/out; cp $D/*.cpp $D/build_and_run.sh $S/out/ 2>/dev/null; cp $D/*.h $S/out/ 2>/dev/null
applies=no; tests=unknown; demo_with=unknown; demo_without=unknown
if (cd $S/repo && git apply --check $D/patch.diff 2>/dev/null || patch -p1 --dry-run -s < $D/patch.diff >/dev/null 2>&1); then applies=yes; fi
(cd $S/repo && patch -p1 -s < $D/patch.diff)
if TEAKRA_REPO=$S/repo BASELINE_BUILD_DIR=$S/bl /verif/tools/baseline.sh > $S/bl.log 2>&1; then tests=pass; else tests=FAIL; fi
(cd $S/repo && OUT=$S/out sh $S/out/build_and_run.sh > $S/demo_with.log 2>&1); rc1=$?
[ $rc1 -ne 0 ] && demo_with=fails || demo_with=PASSES
(cd $S/repo && patch -p1 -R -s < $D/patch.diff)
(cd $S/repo && OUT=$S/out sh $S/out/build_and_run.sh > $S/demo_without.log 2>&1); rc2=$?
[ $rc2 -eq 0 ] && demo_without=passes || demo_without=FAILS
tail -5 $S/demo_with.log > $D/demo_with_change.tail.txt; tail -3 $S/demo_without.log > $D/demo_without_change.tail.txt
# now against /repo itself
results=""
if [ "$(git -C /repo status --porcelain --untracked-files=no | wc -l)" != 0 ]; then echo "/repo is dirty; refusing"; exit 9; fi
git -C /repo apply $D/patch.diff
for P in $PROP $EXTRA; do
  mkdir -p $S/ev
  mkdir -p $S/replays; VERIF_EVIDENCE_DIR=$S/ev VERIF_REPLAY_DIR=$S/replays /verif/check $P > $D/check_$P.log 2>&1; rc=$?
  cls=$(grep -oE "class=[^ ]+" $D/check_$P.log | head -1)
  v=MISSED; [ $rc = 1 ] && v=DETECTED; [ $rc -gt 1 ] && v=HARNESS-ERROR
  results="$results{\"check\":\"$P\",\"verdict\":\"$v\",\"exit\":$rc,\"first_class\":\"${cls#class=}\"},"
  echo "$ID: check $P -> $v ${cls}"
done
git -C /repo checkout -- .
git -C /repo status --porcelain --untracked-files=no | head -3
python3 - <<PY
import json
meta={"id":"$ID","property":"$PROP","source":"independent sub-agent given only the property text and a scratch worktree",
 "patch_applies":"$applies","baseline_tests_with_change":"$tests","demo_with_change":"$demo_with","demo_without_change":"$demo_without",
 "confirmed": ("$applies"=="yes" and "$tests"=="pass" and "$demo_with"=="fails" and "$demo_without"=="passes"),
 "checks":[${results%,}],
 "what_was_run":"tools/seeded_eval.sh: scratch copy of /repo + patch -> tools/baseline.sh (cmake+ctest, guard off); build_and_run.sh with and without the patch; then git -C /repo apply, ./check <Cxx> (quick tier, VERIF_SEED=1), git -C /repo checkout -- ."}
try:
    notes=open("$D/notes.md").read()
    meta["needs_to_manifest"]="see notes.md"
except Exception: pass
json.dump(meta,open("$D/meta.json","w"),indent=1)
print(json.dumps(meta)[:600])
PY
