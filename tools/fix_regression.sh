#!/bin/bash
# usage: tools/fix_regression.sh [--budget-s N]
# For every `fixed:` line of known_findings.txt: reverts that fix commit in a scratch copy of /repo (outside /repo and /verif),
# runs the owning property's quick check against the copy and expects exit 1 - a fixed entry suppresses nothing, so the
# violation must be reported again if the defect ever returns. Writes mutants/FIX_REGRESSION.md.
BUDGET=25
[ "${1:-}" = "--budget-s" ] && BUDGET=$2
cd /verif
OUT=mutants/FIX_REGRESSION.md
TMP=$(mktemp -d)
one() {
  line="$1"
  prop=$(echo "$line" | grep -oE "property=C[0-9]+" | cut -d= -f2)
  commit=$(echo "$line" | grep -oE "commit=[0-9a-f]+" | cut -d= -f2)
  want=$(echo "$line" | grep -oE "class=[^ ]+" | head -1 | cut -d= -f2)
  S=$(mktemp -d /tmp/teakra-fixreg-XXXXXX)
  rsync -a --exclude _build --exclude .git /repo/ $S/repo/
  if ! git -C /repo show $commit -- src include | (cd $S/repo && patch -p1 -R -s >/dev/null 2>&1); then
    echo "| $commit | $prop | REVERT-FAILED | | $want |" > $TMP/$commit.row; rm -rf $S; return
  fi
  mkdir -p $S/ev $S/replays
  TEAKRA_REPO=$S/repo VERIF_EVIDENCE_DIR=$S/ev VERIF_REPLAY_DIR=$S/replays ./check $prop --budget-s $BUDGET > $S/out.log 2>&1; rc=$?
  cls=$(grep -oE "class=[^ ]+" $S/out.log | cut -d= -f2 | sort | uniq -c | sort -rn | awk '{print $2}' | head -3 | tr '\n' ' ')
  v=MISSED; [ $rc = 1 ] && v=REPORTED-AGAIN; [ $rc -gt 1 ] && v=HARNESS-ERROR
  echo "| $commit | $prop | $v | $cls | $want |" | tee $TMP/$commit.row
  rm -rf $S
}
export -f one; export BUDGET TMP
grep "^fixed:" known_findings.txt | while IFS= read -r l; do echo "$l"; done | xargs -d '\n' -P 2 -I{} bash -c 'one "$1"' _ {}
{ echo "# Reverting each repaired defect must make its check report it again (tools/fix_regression.sh, budget ${BUDGET}s)"; echo
  echo "| fix commit reverted | property check | verdict | classes reported | class recorded in known_findings.txt |"; echo "|---|---|---|---|---|"; cat $TMP/*.row; } > $OUT
rm -rf $TMP; cat $OUT
