#!/usr/bin/env python3
"""Writes the briefs (TASK.md) of the round-5 sub-agents: eight 'area' agents that must break one of the claimed properties by a
change in one area of the code, and four 'refactor' agents that must NOT change behaviour. A brief contains property texts and
facts about wwylele/teakra only - nothing about /verif. Worktrees /tmp/w5-<k>, deliverables /tmp/o5-<k>."""
import json, glob, os
props = {}
for l in open('/verif/properties.jsonl'):
    p = json.loads(l); props[p['id']] = p
claimed = ['C06', 'C07', 'C08', 'C09', 'C11', 'C12', 'C13', 'C14', 'C15', 'C16', 'C17', 'C18', 'C19']
plist = "\n".join(f"- {i} — {props[i]['title']}: {props[i]['statement']}" for i in claimed)
earlier = []
for m in sorted(glob.glob('/verif/seeded/*/meta.json')):
    d = json.load(open(m))
    if d.get('summary'):
        earlier.append("  - " + d['summary'].split(': ')[0])
earlier = "\n".join(earlier)
ENC = """Guest programs are 16-bit opcode words written into DSP memory (program word p = bytes 2p,2p+1 of GetDspMemory(); data word a = program word 0x20000+a). Useful encodings: 0x0000 nop; 0x67D0 inc a0; 0x77D0 inc a1; 0x57F0 brr -1 (idle self-branch); 0x5000|(off7<<4)|cond brr (cond 0 always, 1 eq, 2 neq); 0x4180 <addr> br; 0x41C0 <addr> call; 0x4580 ret; 0x4380 eint; 0x43C0 dint; 0x45C0 reti; 0x45D0 retic; 0xD380 cntx s; 0xD390 cntx r; 0x0C00|n rep n; 0x5C00|n <end> bkrep n (end = address of last word of the block); 0xD3C0 break; 0x9468 bkrepsto [sp]; 0x5F48 bkreprst [sp]; 0x5E00|r <imm> mov imm,reg (r0..r5 = 0..5, r7 = 6, st0 = 8, st1 = 9, st2 = 0xA, sp = 0xD, a0 = 0x18, a1 = 0x19, sv = 0x1F); 0x1801 mov r0,[r1] (store); 0x1C01 mov [r1],r0 (load); 0x5E40|r push reg; 0x5E60|r pop reg; 0x0037 <v> mov imm,mod3 (bit 7 ie, bits 8..10 im0..2, bit 11 imv, bits 1..3 ic0..2, bit 13 ccnta, bit 14 cpc, bit 15 crep); 0x0034 <v> mov imm,mod0 (3 = saturation off). Interrupt vectors int0/1/2 at program addresses 0x0006/0x000E/0x0016. The MMIO window is at data address 0x8000 (register offsets in src/*.md); the host uses Teakra::MMIOWrite/MMIORead(offset): 0x204 trigger IRQ bits, 0x202 acknowledge, 0x200 pending, 0x206/0x208/0x20A/0x20C routing, timers at 0x20.., APBP at 0x0C0.., AHBM at 0x0E0.., DMA at 0x1BE.., audio at 0x2BE...; GetRegisterState() inspects/sets registers (include "teakra/impl/register.h", needs -I include/teakra/impl); Teakra::Teakra takes a Teakra::UserConfig argument."""
BUILD = "g++ -std=c++17 -O1 -I include -I include/teakra/impl -I src demo.cpp src/{ahbm,apbp,btdmp,dma,timer,memory_interface,mmio,processor,teakra}.cpp -pthread -o demo (compiling src/processor.cpp takes ~30 s)"
areas = {
 'A': ("the audio port: src/btdmp.cpp, src/btdmp.h, the audio registers in src/mmio.cpp (0x2A2..0x2CA and 0x322..0x34A) and the audio callback wiring in src/teakra.cpp (two ports; only port 0 has a callback)",
       "e.g. state shared between the two ports, a flag updated on one path but not the other (Tick/Skip/Send/Flush/Reset), a callback invoked with a frame assembled from the wrong queue positions, period arithmetic"),
 'B': ("the mailbox/semaphore block seen from the HOST: the Teakra facade functions SendData/RecvData/PeekRecvData/RecvDataIsReady/SendDataIsEmpty/Set|Clear|Mask|GetSemaphore and the handler setters in src/teakra.cpp and include/teakra/teakra.h, src/apbp.cpp/.h (two instances, one per direction) and the cells 0x0C0..0x0D8 in src/mmio.cpp",
       "e.g. a facade function bound to the wrong direction instance for one channel, a handler replaced instead of chained, a status bit derived from the wrong instance, Reset forgetting one of the two instances' fields"),
 'C': ("data/program address translation: src/memory_interface.h (MemoryInterfaceUnit: page mode, x/y/z pages and sizes, MMIO base, InMMIO/ToMMIO/ConvertDataAddress), src/memory_interface.cpp, src/shared_memory.h and the MIU registers in src/mmio.cpp (0x10E..0x11E)",
       "e.g. a register write that changes a neighbouring field, Reset not restoring one of the fields, a translation that is right for page 0 only, host accessors (DataRead/DataWrite/DataReadA32/ProgramRead...) and guest accesses disagreeing for some configuration"),
 'D': ("register banks and context switching: include/teakra/impl/register.h (the Shadow*/ShadowSwap* lists, ShadowStore/ShadowRestore/ShadowSwap, SwapAllArArp/ SwapAr / SwapArp, bank exchange of cfgi/cfgj, r0/r1/r4/r7) and the instructions using them in src/interpreter.h (cntx s/r, banke, bankr, ContextStore/ContextRestore on interrupt entry and retic)",
       "e.g. a register missing from or duplicated in one list, store and restore lists that differ, a swap that is its own inverse only for some values, a flag saved from the wrong side"),
 'E': ("stack discipline in src/interpreter.h: PushPC/PopPC (both cpc orders), call/calla/callr, ret/retd/rets/reti/retic, push/pop/pusha/popa/push prpage/pushp/popp... forms, mov to/from sp, rets' stack adjustment, and their interaction with interrupt entry",
       "e.g. one rarely used push/pop form that writes the two words in the wrong order or to the wrong address, sign handling of 32/40-bit pushes, a return form that forgets the high word of pc, stack pointer wrap at 0x0000/0xFFFF"),
 'F': ("the DMA engine proper: src/dma.cpp and src/dma.h (channel registers, Start, DoDma/Tick dimension stepping with size0/1/2 and step0/1/2, word vs dword mode, end-of-transfer, the interrupt, channel enable bits and the running flags, several channels active at once) and the DMA registers in src/mmio.cpp (0x180..0x1DE)",
       "e.g. a step applied once too often at a dimension boundary, the dword mode's second half using the wrong step, state carried over from one transfer to the next on the same channel, two enabled channels interfering, an end-of-transfer condition that is off for size = 1 or 0"),
 'G': ("interrupt arbitration: src/icu.h (request/enable/vector state, Trigger, acknowledge, enable and vector setters, Reset), the ICU registers in src/mmio.cpp (0x200..0x250), and the latch / priority / entry step at the top of Interpreter::Run in src/interpreter.h (interrupt_pending[], vinterrupt_*, regs.ip0-2/ipv, im0-2/imv, ie, ic0-2 context-switch bits)",
       "e.g. priority among simultaneously pending lines, an acknowledge that clears more or less than asked, a request re-signalled when an enable mask is rewritten, a vector register pair that aliases its neighbour for one irq, the wrong context-switch bit consulted for one line"),
 'H': ("the execution loop itself: Interpreter::Run in src/interpreter.h (cycle accounting, the idle state and its fast-forward, Run(0), what happens when Run returns in the middle of multi-step state), src/processor.cpp (Processor::Run/Reset/SignalInterrupt), Teakra::Run/Reset in src/teakra.cpp and src/core_timing.h (Tick/Skip ordering relative to instruction execution)",
       "e.g. a peripheral ticked before instead of after the instruction for one path, a cycle not counted or counted twice when an interrupt is entered or idle is left, loop-local state that should have been a member, Reset leaving the loop's state"),
}
for k, (area, ideas) in areas.items():
    os.makedirs(f'/tmp/o5-{k}', exist_ok=True)
    t = f"""# Task (you play a careless or subtle maintainer of wwylele/teakra, an emulator of the XpertTeak DSP)

Work ONLY in your scratch git worktree /tmp/w5-{k} and in /tmp/o5-{k}. Do not read or touch /repo, /verif or any other directory under /tmp.

The project is supposed to satisfy (among others) these properties:

{plist}

Your area: {area}.

Produce ONE realistic source change in that area that BREAKS at least one of the properties above while (a) still compiling and (b) still passing the project's existing test suite unchanged. It must look like something a maintainer could plausibly commit (refactor gone slightly wrong, optimisation, off-by-one at an edge, reordering, forgotten field, narrowed type, caching, a fix for one case that breaks another) — not sabotage with magic constants — {ideas}. It must need something SPECIFIC to manifest (a particular sequence of operations, configuration, interleaving, slicing, reset or interrupt at a particular point, an unusual value, or two cooperating sites that each look fine alone), not something ordinary use would expose at once. Make it as hard to notice as you can while still being a real violation of a stated property (not of something the properties do not say). State which property (or properties) it breaks.

Earlier attempts (by others) already used the following ideas; do something different from all of them:
{earlier}

Build and run the existing tests (offline; fresh build directory):
  cd /tmp/w5-{k} && cmake -G Ninja -B _build_x -DCMAKE_BUILD_TYPE=RelWithDebInfo -DTEAKRA_BUILD_TOOLS=OFF >/dev/null && cmake --build _build_x --target teakra_tests && ./_build_x/tests/teakra_tests
All test cases must still pass with your change.

{ENC}

Also produce a DEMONSTRATION: a small standalone C++ program that FAILS (non-zero exit) with your change applied and PASSES (exit 0) on the unchanged tree; build: {BUILD}. If your change is a data race, build the demo with clang++ -fsanitize=thread (TSAN_OPTIONS=halt_on_error=1:exitcode=66) instead. Verify both directions yourself.

Deliver in /tmp/o5-{k}/ :
  patch.diff        `git diff` of your change against the worktree's HEAD (library sources only)
  demo.cpp + build_and_run.sh   run from the worktree root; build_and_run.sh takes the demo's directory from the environment variable OUT (default /tmp/o5-{k}), writes the binary there and exits with the demo's exit status
  notes.md          what the change is, which property it breaks and why, what it needs in order to manifest, what you observed (tests passing with the change; demo failing with it and passing without it)
Leave the worktree with your change REVERTED (clean `git status` apart from untracked build directories). Finish with a short summary that names the broken property.
"""
    open(f'/tmp/o5-{k}/TASK.md', 'w').write(t)

refactors = {
 'R5': "include/teakra/impl/register.h: the pseudo-register machinery (ProxySlot/Redirector templates, the stt/mod/st/cfg/ar/arp pseudo-register definitions, Shadow* lists) and RegisterState::Reset",
 'R6': "the data-addressing helpers of src/interpreter.h (RnAddress, RnAddressAndModify, RnAndModify, StepAddress, OffsetAddress, the modulo and bit-reverse stepping, GetArRnUnit/GetArStep/GetArOffset ...) and the load/store instruction bodies that use them",
 'R7': "src/mmio.cpp and src/mmio.h: how cells are built (Cell, BitFieldCell, BitFieldSlot helpers, the per-peripheral binding code), e.g. table-driven construction, helper functions per peripheral, replacing std::function captures, renaming",
 'R8': "src/btdmp.cpp/.h, src/timer.cpp/.h, src/apbp.cpp/.h and src/icu.h: internal representation and code structure (containers, helper functions, early returns, switch vs if, locking idioms, member initialisers)",
}
for k, area in refactors.items():
    os.makedirs(f'/tmp/o5-{k}', exist_ok=True)
    t = f"""# Task (you are a careful maintainer of wwylele/teakra, an emulator of the XpertTeak DSP)

Work ONLY in your scratch git worktree /tmp/w5-{k} and in /tmp/o5-{k}. Do not read or touch /repo, /verif or any other directory under /tmp.

Make a SUBSTANTIAL but strictly BEHAVIOUR-PRESERVING refactoring of: {area}.
"Substantial" means a reviewer would call it a real restructuring (several functions/classes reshaped, 80+ changed lines), not renaming alone. "Behaviour-preserving" means: for every sequence of public API calls (include/teakra/teakra.h), every guest program, every MMIO access and every thread interleaving, all observable results are exactly what they were: register state, memory, MMIO read-backs, callbacks and their order and arguments, interrupt timing to the cycle, assertion aborts (src/crash.h) on the same inputs, no new data races or undefined behaviour, Reset semantics. Performance may change. If in doubt whether an edge case is preserved, keep the old behaviour.

For orientation, the project is supposed to satisfy (among others) these properties — your refactoring must not affect any of them:

{plist}

Build and run the existing tests (offline; fresh build directory):
  cd /tmp/w5-{k} && cmake -G Ninja -B _build_x -DCMAKE_BUILD_TYPE=RelWithDebInfo -DTEAKRA_BUILD_TOOLS=OFF >/dev/null && cmake --build _build_x --target teakra_tests && ./_build_x/tests/teakra_tests
All test cases must still pass.

Validate equivalence yourself with a differential test: build the ORIGINAL sources (git stash / a second checkout under /tmp/w5-{k}-orig which you create with `git -C /tmp/w5-{k} worktree add --detach /tmp/w5-{k}-orig HEAD` and remove at the end) and your refactored sources into two binaries of the same randomised driver (seeded; many thousands of random operation sequences over the refactored area through the public API and/or the component classes), print a hash of everything observable, and compare. Report the number of sequences compared.

{ENC}

Deliver in /tmp/o5-{k}/ :
  patch.diff   `git diff` of your refactoring against the worktree's HEAD (library sources only; leave it APPLIED in the worktree as well)
  notes.md     what was restructured, how equivalence was validated (driver, number of sequences, result), anything you deliberately kept unchanged
Finish with a short summary.
"""
    open(f'/tmp/o5-{k}/TASK.md', 'w').write(t)
print("briefs:", len(areas) + len(refactors))
