#!/usr/bin/env python3
"""Adds the one-line summary of each seeded change to its meta.json (text distilled from the agent's notes.md)."""
import json, os
S = {
 "agent-C06": "Timer::Skip clean-up: from counter 0 it reloads and then subtracts all ticks (one too many); needs an auto-restart timer sitting at 0 when the idle skip is taken: IRQ not routed to any line and the expiry landing on a really executed idle cycle, e.g. a slice boundary right before it",
 "agent-C07": "latch step guarded by IsInterruptSignalled and ipv assigned instead of OR-ed: a vectored request already latched in ipv is overwritten with 0 when a later int0-2 signal arrives before delivery is enabled",
 "agent-C08": "ie sampled before the instruction executes ('one-instruction latency'): an interrupt latched at the boundary of dint is taken inside the critical section and reti returns with ie = 1",
 "agent-C09": "rep re-issues the already fetched opcode kept in Run() locals instead of stepping pc back: the repeated instruction is lost when Run returns in the middle of a repeat",
 "agent-C11": "two-word fetch buffer in MemoryInterface::ProgramRead dropped only by ProgramWrite: stale after raw-pointer, data-view, guest, DMA writes or Reset to the same words",
 "agent-C12": "InMMIO rewritten as a masked compare assuming a 0x800-aligned base: after relocating the window to an unaligned base the DSP data path reaches no register at all",
 "agent-C13": "memmove fast path for contiguous DSP->DSP rows: wrong for a destination row starting inside the source row at a higher address (in-order copy replicates, memmove does not)",
 "agent-C14": "SetSemaphore fires only when the semaphore WORD was empty instead of when the signal flag was 0: no interrupt when only masked bits were pending and an unmasked bit is set",
 "agent-C15": "GetMaxSkip drops the (u32) cast: horizon sign-extended to ~2^64 for an auto-restart timer at 0 whose start value has bit 31 set",
 "agent-C16": "Skip shares a PopFrame helper and no longer clears the full flag: needs a fill of exactly 16 and a skip that crosses a frame, flag read before the next send",
 "agent-C17": "own DSP memory allocated without zero-fill ('Reset clears it anyway'): memory of an instance used before its first Reset depends on the heap contents",
 "agent-C18": "DMA linear-copy fast path on shared_memory.raw checks only the start addresses and bypasses ReadWord/WriteWord (assertion and observer): a row starting near the end of data memory runs past the array; needs space 0/0, word mode, both steps exactly 1, size1/size2 <= 1",
 "agent-C19": "DataChannel made lock-free with separate atomics for ready and data: no C++ data race (TSan silent) but the receiver can read the previous message as fresh between the two stores, and the new value is left with ready = false",
}
root = os.path.join(os.path.dirname(os.path.abspath(__file__)), "..", "seeded")
for k, v in S.items():
    p = os.path.join(root, k, "meta.json")
    if os.path.exists(p):
        d = json.load(open(p))
        d["summary"] = v
        d["needs_to_manifest"] = v.split(":", 1)[-1].strip() if ":" in v else v
        json.dump(d, open(p, "w"), indent=1)
