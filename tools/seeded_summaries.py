#!/usr/bin/env python3
"""Adds the one-line summary of each seeded change to its meta.json (text distilled from the agent's notes.md)."""
import json, os
S = {
 "agent-C06": "Timer::Skip clean-up: from counter 0 it reloads and then subtracts all ticks (one too many); needs an auto-restart timer sitting at 0 when the idle skip is taken: IRQ not routed to any line and the expiry landing on a really executed idle cycle, e.g. a slice boundary right before it",
 "agent-C07": "latch step guarded by IsInterruptSignalled and ipv assigned instead of OR-ed: a vectored request already latched in ipv is overwritten with 0 when a later int0-2 signal arrives before delivery is enabled",
 "agent-C08": "ie sampled before the instruction executes ('one-instruction latency'): an interrupt latched at the boundary of dint is taken inside the critical section and reti returns with ie = 1",
 "agent-C09": "rep re-issues the already fetched opcode kept in Run() locals instead of stepping pc back: the repeated instruction is lost when Run returns in the middle of a repeat",
 "agent-C11": "two-word fetch buffer in MemoryInterface::ProgramRead dropped only by ProgramWrite: stale after raw-pointer, data-view, guest, DMA writes or Reset to the same words",
 "agent-C12": "InMMIO rewritten as a masked compare assuming a 0x800-aligned base: after relocating the window to an unaligned base the DSP data path reaches no register at all",
 "agent-C13": "memmove fast path for contiguous DSP->DSP rows: wrong for a destination row starting inside the source row at a higher address (in-order copy replicates, memmove does not)",
 "agent-C14": "SetSemaphore fires only when the semaphore WORD was empty instead of when the signal flag was 0: no interrupt when only masked bits were pending and an unmasked bit is set",
 "agent-C15": "GetMaxSkip drops the (u32) cast: horizon sign-extended to ~2^64 for an auto-restart timer at 0 whose start value has bit 31 set",
 "agent-C16": "Skip shares a PopFrame helper and no longer clears the full flag: needs a fill of exactly 16 and a skip that crosses a frame, flag read before the next send",
 "agent-C17": "own DSP memory allocated without zero-fill ('Reset clears it anyway'): memory of an instance used before its first Reset depends on the heap contents",
 "agent-C18": "DMA linear-copy fast path on shared_memory.raw checks only the start addresses and bypasses ReadWord/WriteWord (assertion and observer): a row starting near the end of data memory runs past the array; needs space 0/0, word mode, both steps exactly 1, size1/size2 <= 1",
 "agent-C19": "DataChannel made lock-free with separate atomics for ready and data: no C++ data race (TSan silent) but the receiver can read the previous message as fresh between the two stores, and the new value is left with ready = false",
 "agent2-C06": "Btdmp Tick/Skip share a DequeueFrame helper and Skip no longer clears the full flag: needs the FIFO filled to exactly 16, an idle guest, one Run slice crossing a 4096-cycle frame boundary, and the status (MMIO 0x2C2) observed before the next ticked frame",
 "agent2-C07": "ICU::Trigger signals every line whose enable mask intersects the ACCUMULATED pending register instead of the bits raised by this call: an unrelated trigger re-enters the handler of a line that still has an unacknowledged request",
 "agent2-C08": "ContextStore moves b1 into a1 through SatAndSetAccAndFlag: with ccnta = 1, the hidden bank's sata bit clear (reset value) and b1 outside the signed 32-bit range at the interrupted boundary, b1 is clamped by entry + retic",
 "agent2-C09": "StoreBlockRepeat's frame shift rewritten as a loop with the bound computed after --bcn: bkrepsto while two or more block repeats are active leaves the innermost frame unshifted (interrupt handler saving the frame inside a nested loop)",
 "agent2-C11": "InMMIO as one wrapping compare u16(addr - base) < 0x800: for a window base above 0xF800 the lowest data addresses are routed to MMIO cells instead of memory",
 "agent2-C12": "Dma accessors use a cached Channel* window updated only by ActivateChannel; Dma::Reset does not re-bind it: after Reset with channel k selected, register 0x1BE reads 0 but the window still shows channel k",
 "agent2-C13": "Ahbm::Read32 fetches two 16-bit burst units with one read_external32 at (address & ~3): a 16-bit burst read starting at an address that is 2 mod 4 is shifted by one halfword; aligned bursts use 32-bit callbacks",
 "agent2-C14": "lock-free data-ready mask for the status registers 0x0D6/0x0D8, set after Send returns: a receive from inside the host's receive handler (or in the window from another thread) clears a bit that is not set yet, and the late fetch_or leaves it set for ever",
 "agent2-C15": "Timer::Tick calls UpdateMMIO once at the end for every path: a stopped single-shot timer (counter 0) keeps rewriting the counter mirror while ticking but not while skipping; needs MU toggled so that the mirror is stale",
 "agent2-C16": "Btdmp::Skip advances the transmit timer before testing transmit_enable: phase moves while the port is disabled (horizon infinite), frames arrive early after re-enable",
 "agent2-C17": "Ahbm::Reset resets the channel registers in place and forgets burst_queue: a burst left half-filled before Reset delivers stale words / flushes to address 0 after Reset",
 "agent2-C18": "ShiftBus40 cut-off moved from >= 40 to > 40: sv = +40 or -40 in arithmetic mode calls SignExtend with bit_count 0 (shift by 2^32-1)",
 "agent2-C19": "interrupt latches drained only when a summary flag is set, flag cleared after the drain: a host SendData landing between a latch exchange and the flag store is lost unless another source signals later; needs a second interrupt source",
}

S.update({
 "agent4-C06": "CoreTiming::Skip advances only the components that reported a finite horizon: a component with an infinite horizon (enabled audio port with an empty queue, running single-shot timer already at 0 ...) is not fast-forwarded and loses its phase",
 "agent4-C07": "repeat flag cleared one issue early in Run (rep bookkeeping): after the last-but-one issue the core is interruptible in the middle of a repeat; an interrupt is delivered inside a rep although delivery is deferred while repeating",
 "agent4-C08": "interrupt gate tests a local 'repeating' flag instead of regs.rep: a request latched while the rep instruction itself executes is taken with repeat mode armed, the handler's first instruction is repeated and the interrupted repeat runs once",
 "agent4-C09": "bkrep forms push the frame first and read the count afterwards: 'bkrep lc' inside an active block repeat reads the stale counter of the new slot instead of the enclosing loop's live counter; needs the register form with lc at nesting depth >= 1",
 "agent4-C11": "paired 32-bit accessor for mova/mov2 decides MMIO-vs-memory once from the high-half address: a dword move straddling an edge of the MMIO window sends one half to the wrong side (memory underneath written / register clobbered)",
 "agent4-C12": "MU test hoisted from UpdateMMIO to its call sites, TickEvent forgotten: an EW write in event-count mode overwrites COUNTER_L/H although MU = 0; needs CM = 3, unpaused, non-zero internal counter, MU = 0",
 "agent4-C13": "DMA Tick de-duplicated through helpers that take the DSP-side address as u16: data addresses at or above 0x10000 (second bank, reachable only by DMA) wrap into the first bank",
 "agent4-C14": "DataChannel::Recv as Peek() followed by a second critical section clearing the flag: a Send landing between the two locks is lost (old value returned, new value's flag cleared); needs reader and writer on different threads",
 "agent4-C15": "Timer::Skip unified subtraction; the pause / event-count early-out moved into the counter != 0 arm: a paused auto-restart or free-running timer sitting at 0 is reloaded and counts during an idle skip",
 "agent4-C16": "same idea as agent4-C06 arrived at independently from the audio side: CoreTiming::Skip leaves out components with an infinite horizon; an enabled port with nothing queued stops emitting its (zero) frames during idle skips",
 "agent4-C17": "Apbp::Reset resets the semaphore state through MaskSemaphore(0); ClearSemaphore(0xFFFF): with a masked pending semaphore the unmask inside Reset fires the semaphore handler / raises IRQ 14, so Reset differs from a fresh machine",
 "agent4-C18": "Ahbm burst queue replaced by a linear 8-slot array FIFO that rewinds only when drained: a read burst left partly consumed followed by a write burst through the same channel stores to units[8] and indexes wildly afterwards",
 "agent4-C19": "vectored-interrupt target (address, context bit) moved from two atomics into a plain struct 'ordered by the pending flag': the DSP thread's read for request k races with the host thread's write for request k+1; needs IRQ 14 routed to the vectored line",
})

S.update({
 "agent5-A-btdmp": "audio transmit queue as a 16-word ring; Skip takes a frame with one 4-byte copy assuming an even head: after a transmit with exactly one word queued the head is odd, and a fast-forwarded frame at head 15 reads past the ring and drops the word at position 0",
 "agent5-B-apbp-host": "SetSemaphore calls the handler after unlocking and semaphore_mutex becomes non-recursive; MaskSemaphore (not in the diff) still calls the handler under the lock: a host semaphore handler that calls back into the semaphore API during an unmask self-deadlocks",
 "agent5-C-miu": "effective data pages cached in MemoryInterfaceUnit and refreshed on XPAGE/YPAGE/ZPAGE writes but not on a PAGEMODE write: after leaving paging mode 1 the paged accessors and guest accesses keep using the mode-1 page while the absolute accessors use the true cell",
 "agent5-D-banks": "banke's cfgi/cfgj exchange moved into helpers; SwapCfgj swaps stepj0 with stepi0b in 16-bit step mode: banke with both Cfgi and Cfgj flags and stp16 = 1 applied twice does not restore stepi0/stepi0b/stepj0",
 "agent5-E-stack": "retic rewritten as ContextRestore(); reti(c): the condition is tested a second time on the RESTORED (interrupted code's) flags; a conditional retic whose condition holds on the handler's flags but not on the saved ones switches the context back without returning",
 "agent5-F-dma": "dimension stepping moved into Channel::Advance and Start() no longer zeroes the counters: counter2 stays at size2 after a transfer, so a later transfer on the same channel with SIZE2 >= 2 starts its outer dimension partway and skips the trailing slabs",
 "agent5-G-icu": "ICU::Trigger works line by line; the vectored target is taken from the highest bit of ALL raised irqs instead of the highest vectored-enabled one: a software trigger raising a vectored irq together with a higher unrouted irq enters the wrong vector with the wrong context-switch bit",
 "agent5-H-runloop": "idle state kept across Run calls (dropped when pc moves or a request is latched): if the host rewrites the instruction under the parked pc between two Run calls the next Run(n >= 2) fast-forwards instead of executing it",
})

S.update({
 "agent6-S-slicing": "idle detection by address (idle_pc) instead of a flag, idle = false dropped at interrupt entry: a handler that returns onto a CONDITIONAL self-branch whose condition it has just falsified (plain reti, flags not restored) is fast-forwarded for the rest of the slice; single steps and a slice boundary right after the reti are exact",
 "agent6-T-reset-point": "AHBM keeps a derived DMA-to-AHBM routing table rebuilt on claim-register writes; Ahbm::Reset does not clear it: after Reset, a DMA channel claimed before by AHBM channel 1 or 2 is still served by that channel (back at 8-bit units) until some claim register is written",
 "agent6-I-irq-boundary": "interrupt entry de-duplicated into a helper; idle = false only after an int0-2 entry (the existing flag is never set in the vectored arm): a VECTORED interrupt taken out of an idle self-branch leaves idle set and the handler is fast-forwarded, one instruction per horizon",
 "agent6-H-interleaving": "ICU request register as std::atomic<u16>; Acknowledge is an atomic load followed by a separate atomic store without the mutex: a host Trigger landing between the two is overwritten and its pending bit disappears unacknowledged (TSan-silent)",
 "agent6-R-reconfig": "timer start value cached in a 32-bit reload field refreshed by Restart only; GetMaxSkip/Skip use the cache: a start value rewritten without RES is honoured by Tick but not by the fast-forward pair at the next 0 -> reload transition",
 "agent6-U-uninit": "plain MMIO cells keep their word in an uninitialised member of Cell instead of a zeroed shared_ptr: every storage-only register that the instance has not written yet reads heap garbage, also after Reset",
 "agent6-G-guest-ub": "ar and arp pseudo-registers share one layout template with the ar field widths: the arp Rn selectors become 3 bits, arprnj can hold 4..7 and GetArpRnUnit indexes r[8..11], m[], br[] out of range; needs a 16-bit write to arpN with bit 12 or 15 set and a later arp-addressed instruction",
 "agent6-P-coincidence": "idle computed in Run after the interrupt dispatch as pc == fetch_pc: an entry whose vector address equals the address of the instruction just executed (eint at the vector, second request of the same line latched in that very cycle) marks the core idle inside the handler",
})

S.update({
 "agent7-C09": "loop-end test reads a cached loop_end_pc refreshed by BlockRepeat, loop exit, break and at the top of every Run call, but not by RestoreBlockRepeat: bkreprst executed while no loop is active (a handler or subroutine that saved the frame, ran its own loop and restores) leaves the cache at the previous loop's end, so the restored loop never loops back - unless a Run call boundary intervenes",
 "agent7-C12": "TIMERx_CFG's MU slot bound to a setter that also refreshes COUNTER_L/H; BitFieldCell::set calls every slot's setter on every write: any CFG write with MU = 1 (RES = 0) overwrites software-written COUNTER_L/H with the internal counter",
 "agent7-C13": "double-word DMA masks the running DSP address in place (current &= ~1) instead of using aligned locals: the parity that the step arithmetic relies on is lost, so odd steps on the DSP side address the wrong double words from the third element on",
 "agent7-C14": "signal-flag update moved before the handler call; in MaskSemaphore the assignment sits inside the branch that also requires a handler: with no semaphore handler installed (polling host) an unmask that uncovers a pending bit leaves S' = 0",
 "agent7-C15": "an 'expired' flag remembers that a single-count timer ran out and makes GetMaxSkip/Skip inert; a later mode write (to free-running or auto-restart, without a restart that reaches the clearing line) is honoured by Tick but not by the fast-forward pair",
 "agent7-C16": "audio queue as a packed array with a count; TakeFrame returns {fifo[0], fifo[1]} relying on zeroed slots behind the queue, Flush only sets count = 0: after a flush a one-word frame carries a stale flushed word as its right channel",
 "agent7-C17": "Reset skips the 512 KiB wipe unless a dirty flag is set; the flag is raised by WriteWord and when the raw pointer is FETCHED, not when the host writes through a pointer it kept: such writes survive Reset if the emulator itself stored nothing in between",
 "agent7-C18": "Ahbm::Read32 binds the queue front by const reference, pops, then returns it: every 128th unit read through one AHBM channel reads 4 bytes of a just-freed deque block (functionally invisible, ASan/valgrind only)",
})
root = os.path.join(os.path.dirname(os.path.abspath(__file__)), "..", "seeded")
for k, v in S.items():
    p = os.path.join(root, k, "meta.json")
    if os.path.exists(p):
        d = json.load(open(p))
        d["summary"] = v
        d["needs_to_manifest"] = v.split(":", 1)[-1].strip() if ":" in v else v
        json.dump(d, open(p, "w"), indent=1)
