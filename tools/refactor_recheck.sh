#!/bin/bash
# usage: tools/refactor_recheck.sh <id> "<note>" <Cxx> [Cxx...]
# Re-runs checks that were strengthened since a behaviour-preserving refactoring (refactors/<id>/patch.diff) was first
# evaluated; every one of them must still exit 0. Appends the result to refactors/<id>/meta.json.
set -u
ID=$1; NOTE=$2; shift 2
D=/verif/refactors/$ID
S=$(mktemp -d /tmp/teakra-refac-XXXXXX); trap 'rm -rf "$S"' EXIT
if [ "$(git -C /repo status --porcelain --untracked-files=no | wc -l)" != 0 ]; then echo "/repo is dirty; refusing"; exit 9; fi
git -C /repo apply $D/patch.diff || exit 9
res=""; alarms=0
for P in "$@"; do
  mkdir -p $S/ev $S/replays
  VERIF_EVIDENCE_DIR=$S/ev VERIF_REPLAY_DIR=$S/replays /verif/check $P > $D/recheck_$P.log 2>&1; rc=$?
  [ $rc != 0 ] && alarms=$((alarms+1)) && cp $S/replays/*.plan $D/ 2>/dev/null
  res="$res{\"check\":\"$P\",\"exit\":$rc},"
  echo "$ID: recheck $P -> exit $rc"
done
git -C /repo checkout -- .
python3 - <<PY
import json
p="$D/meta.json"; d=json.load(open(p)); d.setdefault("rechecks",[]).append({"note":"$NOTE","checks":[${res%,}],"alarms":$alarms}); json.dump(d,open(p,"w"),indent=1)
PY
echo "$ID: recheck alarms=$alarms"
