#!/bin/bash
# Runs the repository's own test suite with the verification guard OFF (plain cmake build).
set -e
REPO=${TEAKRA_REPO:-/repo}
BD=${BASELINE_BUILD_DIR:-/verif/.build/baseline}
mkdir -p "$BD"
cmake -G Ninja -S "$REPO" -B "$BD" -DCMAKE_BUILD_TYPE=RelWithDebInfo -DTEAKRA_BUILD_TOOLS=OFF >/dev/null
cmake --build "$BD" --target teakra_tests >/dev/null
cd "$BD"
ctest --test-dir "$BD" -j8 --timeout 900 --output-on-failure
"$BD"/tests/teakra_tests -r compact | tail -3
