#!/bin/bash
# Runs every sensitivity patch in /verif/mutants (name prefix = property, e.g. c06-*.patch) through
# tools/mutation_check.sh and writes mutants/MATRIX.md. usage: tools/run_mutants.sh [--budget-s N] [--jobs J] [pattern]
# (builds serialise on the build cache lock; J mutants are checked at a time)
BUDGET=15; PAT="*"; JOBS=3
while [ $# -gt 0 ]; do case $1 in --budget-s) BUDGET=$2; shift;; --jobs) JOBS=$2; shift;; *) PAT=$1;; esac; shift; done
cd /verif
OUT=mutants/MATRIX.md
TMP=$(mktemp -d)
one() {
  f=$1; n=$(basename $f .patch); p=$(echo ${n%%-*} | tr a-z A-Z)
  r=$(tools/mutation_check.sh $f $p --budget-s $BUDGET 2>&1)
  verdict=$(echo "$r" | grep -oE "^(DETECTED|MISSED|HARNESS-ERROR|PATCH-FAILED|BASELINE-TESTS-FAIL)" | tail -1)
  cls=$(echo "$r" | grep -oE "class=[^ ]+" | head -1)
  echo "| $n | $p | ${verdict:-?} | ${cls#class=} |" | tee $TMP/$n.row
}
export -f one; export BUDGET TMP
ls mutants/$PAT.patch | xargs -P $JOBS -I{} bash -c 'one {}'
{ echo "# Sensitivity matrix (tools/run_mutants.sh, quick budget ${BUDGET}s per mutant, $JOBS at a time)"; echo; echo "| mutant | property check | verdict | first violation class |"; echo "|---|---|---|---|"; cat $TMP/*.row | sort; } > $OUT
rm -rf $TMP
