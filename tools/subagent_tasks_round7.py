#!/usr/bin/env python3
"""Writes the briefs (TASK.md) of the round-7 sub-agents: eight agents that must break one of the claimed properties by a
change that only shows under one KIND of fault or schedule (slicing, reset point, interrupt boundary, thread interleaving, ...). A brief contains property texts and
facts about wwylele/teakra only - nothing about /verif. Worktrees /tmp/w7-<k>, deliverables /tmp/o7-<k>."""
import json, glob, os
props = {}
for l in open('/verif/properties.jsonl'):
    p = json.loads(l); props[p['id']] = p
claimed = ['C06', 'C07', 'C08', 'C09', 'C11', 'C12', 'C13', 'C14', 'C15', 'C16', 'C17', 'C18', 'C19']
plist = "\n".join(f"- {i} — {props[i]['title']}: {props[i]['statement']}" for i in claimed)
earlier = []
for m in sorted(glob.glob('/verif/seeded/*/meta.json')):
    d = json.load(open(m))
    if d.get('summary'):
        earlier.append("  - " + d['summary'].split(': ')[0])
earlier = "\n".join(earlier)
ENC = """Guest programs are 16-bit opcode words written into DSP memory (program word p = bytes 2p,2p+1 of GetDspMemory(); data word a = program word 0x20000+a). Useful encodings: 0x0000 nop; 0x67D0 inc a0; 0x77D0 inc a1; 0x57F0 brr -1 (idle self-branch); 0x5000|(off7<<4)|cond brr (cond 0 always, 1 eq, 2 neq); 0x4180 <addr> br; 0x41C0 <addr> call; 0x4580 ret; 0x4380 eint; 0x43C0 dint; 0x45C0 reti; 0x45D0 retic; 0xD380 cntx s; 0xD390 cntx r; 0x0C00|n rep n; 0x5C00|n <end> bkrep n (end = address of last word of the block); 0xD3C0 break; 0x9468 bkrepsto [sp]; 0x5F48 bkreprst [sp]; 0x5E00|r <imm> mov imm,reg (r0..r5 = 0..5, r7 = 6, st0 = 8, st1 = 9, st2 = 0xA, sp = 0xD, a0 = 0x18, a1 = 0x19, sv = 0x1F); 0x1801 mov r0,[r1] (store); 0x1C01 mov [r1],r0 (load); 0x5E40|r push reg; 0x5E60|r pop reg; 0x0037 <v> mov imm,mod3 (bit 7 ie, bits 8..10 im0..2, bit 11 imv, bits 1..3 ic0..2, bit 13 ccnta, bit 14 cpc, bit 15 crep); 0x0034 <v> mov imm,mod0 (3 = saturation off). Interrupt vectors int0/1/2 at program addresses 0x0006/0x000E/0x0016. The MMIO window is at data address 0x8000 (register offsets in src/*.md); the host uses Teakra::MMIOWrite/MMIORead(offset): 0x204 trigger IRQ bits, 0x202 acknowledge, 0x200 pending, 0x206/0x208/0x20A/0x20C routing, timers at 0x20.., APBP at 0x0C0.., AHBM at 0x0E0.., DMA at 0x1BE.., audio at 0x2BE...; GetRegisterState() inspects/sets registers (include "teakra/impl/register.h", needs -I include/teakra/impl); Teakra::Teakra takes a Teakra::UserConfig argument."""
BUILD = "g++ -std=c++17 -O1 -I include -I include/teakra/impl -I src demo.cpp src/{ahbm,apbp,btdmp,dma,timer,memory_interface,mmio,processor,teakra}.cpp -pthread -o demo (compiling src/processor.cpp takes ~30 s)"
hints = {
 "C09": "src/interpreter.h (regs.rep / regs.lp handling after the fetch in Run, Repeat, BlockRepeat, bkrep forms incl. register counts, break_, StoreBlockRepeat/RestoreBlockRepeat, the loop-end test for two-word last instructions, interrupt entry condition), include/teakra/impl/register.h (rep, repc, lp, bcn, bkrep_stack, Lc(), LPRedirector, the lc/repc pseudo registers, push/pop of lc and repc)",
 "C12": "src/mmio.cpp (every binding), src/dma.h, src/timer.h, src/icu.h, src/ahbm.h, src/apbp.cpp, src/btdmp.h, src/memory_interface.h/.cpp (window routing, mirrors), src/teakra.cpp (host accessors) and the register documents src/*.md",
 "C13": "src/dma.cpp, src/dma.h, src/dma.md, src/ahbm.cpp, src/ahbm.h, src/ahbm.md (bursts, unit sizes, direction, Read16/Read32/Write16/Write32), src/teakra.cpp (callbacks), tests/dma.cpp",
 "C14": "src/apbp.cpp, src/apbp.h, src/apbp.md, src/mmio.cpp (0x0C0..0x0D8: both directions, status mirrors, interrupt-disable bits), src/teakra.cpp, include/teakra/teakra.h",
 "C15": "src/timer.cpp, src/timer.h, src/timer.md, src/core_timing.h, tests/timer.cpp, src/mmio.cpp (0x20..0x3E: CFG bit fields, EW, start and counter words)",
 "C16": "src/btdmp.cpp, src/btdmp.h, src/btdmp.md, src/core_timing.h, tests/btdmp.cpp, src/mmio.cpp (0x2A2..0x2CA, 0x322..0x34A), src/teakra.cpp (SetAudioCallback)",
 "C17": "src/teakra.cpp (Impl, Reset, construction order), src/processor.cpp, src/interpreter.h (members, Reset), include/teakra/impl/register.h, src/icu.h, src/apbp.cpp, src/timer.cpp, src/dma.cpp/.h, src/ahbm.cpp/.h, src/btdmp.cpp/.h, src/memory_interface.h, src/mmio.cpp, src/shared_memory.h",
 "C18": "src/shared_memory.h (bounds assertion), src/memory_interface.cpp/.h, src/interpreter.h (fetch, SetPC, address arithmetic, modulo/bit-reverse stepping, bkrep stack indexing, shifts, exp/norm, movp/movd, stack forms), src/dma.cpp/.h, src/ahbm.cpp/.h, src/mmio.cpp, src/icu.h, src/apbp.cpp, src/btdmp.cpp, src/timer.cpp, src/crash.h, src/common_types.h, src/bit.h, src/operand.h",
}
areas = {}
for pid, h in hints.items():
    pr = props[pid]
    areas[pid] = (f"property {pid} — {pr['title']}. Statement: {pr['statement']} Quantified over: {pr['quantifier']['text']}. Your change must break THIS property (it may break others too). Read first: {h}",
                  "preferably TWO cooperating edits that each look harmless alone (e.g. a helper changed in one file and a caller that relied on the old behaviour in another; a default changed here and an assumption about it there), or a clause of the property that none of the earlier ideas below touches")
for k, (area, ideas) in areas.items():
    os.makedirs(f'/tmp/o7-{k}', exist_ok=True)
    t = f"""# Task (you play a careless or subtle maintainer of wwylele/teakra, an emulator of the XpertTeak DSP)

Work ONLY in your scratch git worktree /tmp/w7-{k} and in /tmp/o7-{k}. Do not read or touch /repo, /verif or any other directory under /tmp.

The project is supposed to satisfy (among others) these properties:

{plist}

Your assignment: {area}.

Produce ONE realistic source change of that kind that BREAKS at least one of the properties above while (a) still compiling and (b) still passing the project's existing test suite unchanged. It must look like something a maintainer could plausibly commit (refactor gone slightly wrong, optimisation, off-by-one at an edge, reordering, forgotten field, narrowed type, caching, a fix for one case that breaks another) — not sabotage with magic constants — {ideas}. It must need something SPECIFIC to manifest (a particular sequence of operations, configuration, interleaving, slicing, reset or interrupt at a particular point, an unusual value, or two cooperating sites that each look fine alone), not something ordinary use would expose at once. Make it as hard to notice as you can while still being a real violation of a stated property (not of something the properties do not say). State which property (or properties) it breaks.

Earlier attempts (by others) already used the following ideas; do something different from all of them:
{earlier}

Build and run the existing tests (offline; fresh build directory):
  cd /tmp/w7-{k} && cmake -G Ninja -B _build_x -DCMAKE_BUILD_TYPE=RelWithDebInfo -DTEAKRA_BUILD_TOOLS=OFF >/dev/null && cmake --build _build_x --target teakra_tests && ./_build_x/tests/teakra_tests
All test cases must still pass with your change.

{ENC}

Also produce a DEMONSTRATION: a small standalone C++ program that FAILS (non-zero exit) with your change applied and PASSES (exit 0) on the unchanged tree; build: {BUILD}. If your change is a data race, build the demo with clang++ -fsanitize=thread (TSAN_OPTIONS=halt_on_error=1:exitcode=66) instead. Verify both directions yourself.

Deliver in /tmp/o7-{k}/ :
  patch.diff        `git diff` of your change against the worktree's HEAD (library sources only)
  demo.cpp + build_and_run.sh   run from the worktree root; build_and_run.sh takes the demo's directory from the environment variable OUT (default /tmp/o7-{k}), writes the binary there and exits with the demo's exit status
  notes.md          what the change is, which property it breaks and why, what it needs in order to manifest, what you observed (tests passing with the change; demo failing with it and passing without it)
Leave the worktree with your change REVERTED (clean `git status` apart from untracked build directories). Finish with a short summary that names the broken property.
"""
    open(f'/tmp/o7-{k}/TASK.md', 'w').write(t)

print("briefs:", len(areas))
