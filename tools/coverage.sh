#!/bin/bash
# usage: tools/coverage.sh [runs-per-scenario]      (default 400)
# Measures which lines and functions of the repository under test the simulation scenarios reach: builds the
# coverage flavour (clang source-based coverage, no sanitizer), runs every scenario in-process for N seeded plans,
# merges the profiles and writes coverage/SUMMARY.md (per file and per scenario) and coverage/unreached_functions.txt.
# This is reach measurement for DESIGN/evidence, not a check: it decides nothing. The C19 scenario is not measured:
# it only exists in the ThreadSanitizer build, and TSan + profile instrumentation crashes at start-up with clang 14.
set -u
N=${1:-400}
cd /verif
REPO=${TEAKRA_REPO:-/repo}
EXE=$(./build.py cov --repo $REPO --quiet | tail -1) || exit 2
W=$(mktemp -d /tmp/teakra-cov-XXXXXX); trap 'rm -rf "$W"' EXIT
mkdir -p coverage
SCEN="C06 C07 C08 C09 C11 C12 C13 C14 C15 C15F C16 C16F C17 C18"
run_one() {
  local s=$1 j n=$N
  [ $s = C18 ] && n=$((N*20))   # the chaos scenario is the one meant to reach every instruction handler: give it a quick run's worth
  for j in 0 1 2 3; do
    TEAKSIM_NO_ISOLATE=1 LLVM_PROFILE_FILE=$W/$s-$j.profraw $EXE worker $s --seed 1 --start $j --stride 4 --budget-s 1800 \
      --max-runs $((n/4)) --outdir $W --tier quick > $W/$s-$j.log 2>/dev/null &
  done
  wait
  llvm-profdata-14 merge -o $W/$s.profdata $W/$s-*.profraw 2>/dev/null
}
for s in $SCEN; do run_one $s & done
wait
llvm-profdata-14 merge -o $W/all.profdata $(for s in $SCEN; do echo $W/$s.profdata; done)
FILES=$(ls $REPO/src/*.cpp $REPO/src/*.h $REPO/include/teakra/impl/register.h | grep -v "disassembler\|parser\|test_generator\|coff_reader\|dsp1_reader\|makedsp1\|teakra_c.cpp\|test.h")
for s in $SCEN all; do
  llvm-cov-14 report $EXE -instr-profile=$W/$s.profdata $FILES 2>/dev/null > $W/$s.report
done
python3 - "$W" "$REPO" "$N" $SCEN all > coverage/SUMMARY.md <<'PY'
import sys, re, os
W, REPO, N, scen = sys.argv[1], sys.argv[2], sys.argv[3], sys.argv[4:]
tab = {}
files = []
for s in scen:
    for line in open(os.path.join(W, s + ".report")):
        t = line.split()
        if len(t) < 10 or t[0] in ("Filename", "TOTAL") or t[0].startswith("---"):
            continue
        f = t[0]
        # columns: Filename Regions Missed Cover Functions Missed Executed Lines Missed Cover ...
        lines, missed = int(t[7]), int(t[8])
        funcs, fmissed = int(t[4]), int(t[5])
        tab[(f, s)] = (lines, missed, funcs, fmissed)
        if f not in files:
            files.append(f)
print("# Reach of the simulation scenarios inside the repository")
print()
print("Produced by `tools/coverage.sh %s` (%s seeded plans per scenario, 20 times as many for C18, seed 1, quick-tier generators, clang source-based" % (N, N))
print("coverage at -O1, executed in-process). Cells are line coverage of that file by that scenario alone; `all` merges the")
print("scenarios. The C19 scenario is not in the table (TSan build only; see the script header). A check's quick run executes")
print("tens to hundreds of times more plans than this sample, so these figures are lower bounds of what the checks reach.")
print()
print("| file | " + " | ".join(scen) + " | functions never entered (all) |")
print("|---|" + "---|" * (len(scen) + 1))
for f in sorted(files):
    row = []
    for s in scen:
        v = tab.get((f, s))
        row.append("-" if not v or v[0] == 0 else "%.0f%%" % (100.0 * (v[0] - v[1]) / v[0]))
    v = tab.get((f, "all"))
    row.append("%d of %d" % (v[3], v[2]) if v else "-")
    print("| %s | " % f.replace(REPO + "/", "") + " | ".join(row) + " |")
PY
llvm-cov-14 report $EXE -instr-profile=$W/all.profdata -show-functions $FILES 2>/dev/null > $W/funcs.txt
python3 - "$W/funcs.txt" > coverage/unreached_functions.txt <<'PY'
import sys, subprocess, re
names = []
cur = None
for line in open(sys.argv[1]):
    if line.startswith("File '"):
        cur = line.strip()[6:-2]
        continue
    t = line.split()
    # Name Regions Miss Cover Lines Miss Cover Branches...
    if len(t) >= 7 and t[0] not in ("Name", "TOTAL") and not t[0].startswith("---"):
        try:
            regions, miss = int(t[1]), int(t[2])
        except ValueError:
            continue
        if regions > 0 and regions == miss:
            names.append((cur, t[0]))
dem = subprocess.run(["c++filt"], input="\n".join(n for _, n in names), capture_output=True, text=True).stdout.splitlines()
seen = set()
for (f, _), d in zip(names, dem):
    d = re.sub(r"^[^:]*\.(cpp|h):", "", d)
    key = (f.split("/")[-1], d)
    if key not in seen:
        seen.add(key)
        print("%s\t%s" % key)
PY
echo >> coverage/SUMMARY.md
echo "Functions (template instantiations counted separately) that no scenario entered: $(wc -l < coverage/unreached_functions.txt); list in \`coverage/unreached_functions.txt\`." >> coverage/SUMMARY.md
cat coverage/SUMMARY.md
