#!/bin/bash
# usage: tools/mutation_check.sh <patch> <Cxx> [--tests] [--budget-s N]
# Applies <patch> to a scratch copy of /repo (outside /repo and /verif), optionally runs the 17
# baseline tests there with the guard off, runs the property's check against the copy, prints
# DETECTED / MISSED, and deletes the copy.
set -u
PATCH=$(realpath "$1"); PROP=$2; shift 2
TESTS=0; BUDGET=""
while [ $# -gt 0 ]; do case $1 in --tests) TESTS=1;; --budget-s) BUDGET="--budget-s $2"; shift;; esac; shift; done
S=$(mktemp -d /tmp/teakra-mut-XXXXXX)
trap 'rm -rf "$S"' EXIT
rsync -a --exclude _build --exclude .git /repo/ "$S/repo/"
if ! (cd "$S/repo" && patch -p1 -s < "$PATCH"); then echo "PATCH-FAILED $PATCH"; exit 3; fi
if [ $TESTS = 1 ]; then
  if ! TEAKRA_REPO="$S/repo" BASELINE_BUILD_DIR="$S/bl" /verif/tools/baseline.sh > "$S/bl.log" 2>&1; then
    echo "BASELINE-TESTS-FAIL $(basename $PATCH)"; tail -5 "$S/bl.log"; exit 4; fi
  echo "baseline tests pass with $(basename $PATCH)"
fi
mkdir -p "$S/ev"
mkdir -p "$S/replays"
TEAKRA_REPO="$S/repo" VERIF_EVIDENCE_DIR="$S/ev" VERIF_REPLAY_DIR="$S/replays" /verif/check $PROP $BUDGET > "$S/out.log" 2>&1
rc=$?
grep -E "VIOLATION|KNOWN-FINDING|NONDET|HARNESS|class=|tier=" "$S/out.log" | head -8
if [ $rc = 1 ]; then echo "DETECTED $(basename $PATCH) by $PROP"; elif [ $rc = 0 ]; then echo "MISSED $(basename $PATCH) by $PROP"; else echo "HARNESS-ERROR rc=$rc"; tail -5 "$S/out.log"; fi
exit $rc
