#!/usr/bin/env python3
"""Prints the markdown table of seeded changes (seeded/*/meta.json) for DESIGN.md section 10.5."""
import glob, json, os
rows = []
for m in sorted(glob.glob(os.path.join(os.path.dirname(__file__), "..", "seeded", "*", "meta.json"))):
    d = json.load(open(m))
    checks = "; ".join("%s: %s%s" % (c["check"], c["verdict"], (" (" + c["first_class"] + ")") if c.get("first_class") else "") for c in d.get("checks", []))
    rows.append("| %s | %s | %s | %s | %s |" % (d["id"], d["property"], "yes" if d.get("confirmed") else "NO", d.get("summary", ""), checks))
print("| id | property | confirmed (compiles, tests pass, demo fails with / passes without) | what it is / what it needs | result of my checks |")
print("|---|---|---|---|---|")
print("\n".join(rows))
