#!/bin/bash
# usage: tools/seeded_recheck.sh <id> "<note>" <Cxx> [Cxx...]
# Re-runs checks against an already confirmed seeded change (seeded/<id>/patch.diff) after the machinery was strengthened
# and appends the verdicts to seeded/<id>/meta.json (the first evaluation stays recorded).
set -u
ID=$1; NOTE=$2; shift 2
D=/verif/seeded/$ID
S=$(mktemp -d /tmp/teakra-seed-XXXXXX); trap 'rm -rf "$S"' EXIT
if [ "$(git -C /repo status --porcelain --untracked-files=no | wc -l)" != 0 ]; then echo "/repo is dirty; refusing"; exit 9; fi
git -C /repo apply $D/patch.diff || exit 9
results=""
for P in "$@"; do
  mkdir -p $S/ev $S/replays
  VERIF_EVIDENCE_DIR=$S/ev VERIF_REPLAY_DIR=$S/replays /verif/check $P > $D/recheck_$P.log 2>&1; rc=$?
  cls=$(grep -oE "class=[^ ]+" $D/recheck_$P.log | head -1)
  v=MISSED; [ $rc = 1 ] && v=DETECTED; [ $rc -gt 1 ] && v=HARNESS-ERROR
  results="$results{\"check\":\"$P\",\"verdict\":\"$v\",\"exit\":$rc,\"first_class\":\"${cls#class=}\",\"note\":\"$NOTE\"},"
  echo "$ID: recheck $P -> $v ${cls}"
done
git -C /repo checkout -- .
python3 - <<PY
import json
p="$D/meta.json"; d=json.load(open(p)); d["checks"] += [${results%,}]; json.dump(d,open(p,"w"),indent=1)
PY
