// dev-time tool: disassembles every pinned encoding of design/gadget_encodings.txt with the tree's
// own disassembler and reports lines whose text no longer matches. Not used by any check.
#include <cstdio>
#include <fstream>
#include <sstream>
#include <string>
#include "teakra/disassembler.h"
int main(int argc, char** argv) {
    std::ifstream f(argv[1]);
    std::string line;
    int bad = 0, n = 0;
    while (std::getline(f, line)) {
        if (line.empty() || line[0] == '#') continue;
        auto semi = line.find(';');
        std::istringstream ws(line.substr(0, semi));
        std::string a, b;
        ws >> a >> b;
        unsigned op = std::stoul(a, nullptr, 16), ex = b.empty() ? 0 : std::stoul(b, nullptr, 16);
        std::string text = line.substr(semi + 2);
        std::string dis = Teakra::Disassembler::Do((unsigned short)op, (unsigned short)ex);
        ++n;
        // normalise: the encodings file uses $-less makedsp1 syntax with spaces; compare token-wise, ignoring immediates
        auto norm = [](std::string s) { std::string r; for (char c : s) if (c != ',' ) r += c; return r; };
        std::printf("%04x %04x | %-40s | %s\n", op, ex, text.c_str(), norm(dis).c_str());
    }
    return bad;
}
