#!/usr/bin/env python3
"""Writes the briefs (TASK.md) of the round-6 sub-agents: eight agents that must break one of the claimed properties by a
change that only shows under one KIND of fault or schedule (slicing, reset point, interrupt boundary, thread interleaving, ...). A brief contains property texts and
facts about wwylele/teakra only - nothing about /verif. Worktrees /tmp/w6-<k>, deliverables /tmp/o6-<k>."""
import json, glob, os
props = {}
for l in open('/verif/properties.jsonl'):
    p = json.loads(l); props[p['id']] = p
claimed = ['C06', 'C07', 'C08', 'C09', 'C11', 'C12', 'C13', 'C14', 'C15', 'C16', 'C17', 'C18', 'C19']
plist = "\n".join(f"- {i} — {props[i]['title']}: {props[i]['statement']}" for i in claimed)
earlier = []
for m in sorted(glob.glob('/verif/seeded/*/meta.json')):
    d = json.load(open(m))
    if d.get('summary'):
        earlier.append("  - " + d['summary'].split(': ')[0])
earlier = "\n".join(earlier)
ENC = """Guest programs are 16-bit opcode words written into DSP memory (program word p = bytes 2p,2p+1 of GetDspMemory(); data word a = program word 0x20000+a). Useful encodings: 0x0000 nop; 0x67D0 inc a0; 0x77D0 inc a1; 0x57F0 brr -1 (idle self-branch); 0x5000|(off7<<4)|cond brr (cond 0 always, 1 eq, 2 neq); 0x4180 <addr> br; 0x41C0 <addr> call; 0x4580 ret; 0x4380 eint; 0x43C0 dint; 0x45C0 reti; 0x45D0 retic; 0xD380 cntx s; 0xD390 cntx r; 0x0C00|n rep n; 0x5C00|n <end> bkrep n (end = address of last word of the block); 0xD3C0 break; 0x9468 bkrepsto [sp]; 0x5F48 bkreprst [sp]; 0x5E00|r <imm> mov imm,reg (r0..r5 = 0..5, r7 = 6, st0 = 8, st1 = 9, st2 = 0xA, sp = 0xD, a0 = 0x18, a1 = 0x19, sv = 0x1F); 0x1801 mov r0,[r1] (store); 0x1C01 mov [r1],r0 (load); 0x5E40|r push reg; 0x5E60|r pop reg; 0x0037 <v> mov imm,mod3 (bit 7 ie, bits 8..10 im0..2, bit 11 imv, bits 1..3 ic0..2, bit 13 ccnta, bit 14 cpc, bit 15 crep); 0x0034 <v> mov imm,mod0 (3 = saturation off). Interrupt vectors int0/1/2 at program addresses 0x0006/0x000E/0x0016. The MMIO window is at data address 0x8000 (register offsets in src/*.md); the host uses Teakra::MMIOWrite/MMIORead(offset): 0x204 trigger IRQ bits, 0x202 acknowledge, 0x200 pending, 0x206/0x208/0x20A/0x20C routing, timers at 0x20.., APBP at 0x0C0.., AHBM at 0x0E0.., DMA at 0x1BE.., audio at 0x2BE...; GetRegisterState() inspects/sets registers (include "teakra/impl/register.h", needs -I include/teakra/impl); Teakra::Teakra takes a Teakra::UserConfig argument."""
BUILD = "g++ -std=c++17 -O1 -I include -I include/teakra/impl -I src demo.cpp src/{ahbm,apbp,btdmp,dma,timer,memory_interface,mmio,processor,teakra}.cpp -pthread -o demo (compiling src/processor.cpp takes ~30 s)"
areas = {
 'S': ("a defect that only shows when the host SLICES execution in a particular way: somewhere in Interpreter::Run (src/interpreter.h), src/processor.cpp, Teakra::Run (src/teakra.cpp), src/core_timing.h or a peripheral's Tick/Skip/GetMaxSkip, make the result of Run(a) followed by Run(b) differ from Run(a+b) or from a+b calls of Run(1) for SOME split only",
       "e.g. state that should persist across calls kept in a local, a per-call initialisation that should happen once, a remainder of cycles dropped or carried wrongly, something done at the start or end of every Run call rather than every cycle. Do NOT reuse: idle state carried across calls, idle skip past a pending interrupt, infinite-horizon components skipped"),
 'T': ("a defect that only shows after Teakra::Reset() called at a PARTICULAR moment: some piece of state (in src/btdmp.*, src/memory_interface.h, src/dma.*, src/ahbm.*, src/timer.*, src/apbp.cpp, src/icu.h, src/interpreter.h members, include/teakra/impl/register.h, src/mmio.cpp latches) that Reset no longer returns to its power-on value, so that a machine that was used and then Reset behaves differently from a freshly constructed one",
       "e.g. a new cached/derived member that Reset forgets, a Reset that now resets 'through' a setter with side effects or in the wrong order, a container cleared but a cursor into it kept. Do NOT reuse: ICU not reset, APBP disable bit, interrupt latches, AHBM burst queue, DMA active-channel window, APBP reset through semaphore accessors, zero-fill of memory"),
 'I': ("a defect that only shows when an interrupt is accepted at ONE PARTICULAR KIND of instruction boundary: in the interrupt entry code of Interpreter::Run, PushPC/PopPC, ContextStore/ContextRestore, reti/retic/retid forms, or in an instruction whose state must survive an interrupt (call/ret, push/pop, loops, delayed returns, two-word instructions, mov to st0/st2/mod3, eint/dint)",
       "e.g. entry right after a two-word instruction pushing the wrong return address, an instruction that leaves a flag in a local across the boundary, a delayed-slot form, wrong behaviour when the interrupt hits the last instruction of a block repeat or the instruction after `eint`. Do NOT reuse: ie sampled early, rep flag one early, local 'repeating' flag, bkrep lc, conditional retic re-test, ipv assigned instead of OR-ed"),
 'H': ("a LOGIC error (not a C++ data race: every shared access stays under its mutex or atomic, ThreadSanitizer must stay silent) in the code shared by a host thread calling the mailbox/semaphore API and the DSP thread executing Run: src/apbp.cpp, src/icu.h, the interrupt latches in src/interpreter.h, src/teakra.cpp, src/processor.cpp — something that is only wrong for a particular interleaving of the two threads",
       "e.g. check-then-act across two critical sections, a flag and its data updated under different locks, a handler called with a lock held that the other thread needs in the opposite order (deadlock only for one interleaving), a lost wake-up of the idle core, a coalesced interrupt request. Do NOT reuse: lock-free DataChannel, ready mask set after Send, receive split into peek + clear, summary flag around the latch drain, non-recursive semaphore mutex"),
 'R': ("a defect that only shows after a CONFIGURATION CHANGE IN MID-HISTORY: relocating the MMIO window (0x11E), switching the DMA channel select (0x1BE), changing AHBM channel configuration, ICU routing or vectors, timer mode, audio enable, z/x/y page or paging mode, mailbox interrupt-disable bits — while something that depends on the old configuration is pending, in flight, or cached",
       "e.g. a value derived from a configuration register computed once and not again, a pending request that is re-evaluated (or not) under the new routing, a FIFO/burst that keeps the old unit size, a timer that keeps the old mode until its next expiry. Do NOT reuse: InMMIO masked/wrapping compare, cached DMA Channel*, page cache not refreshed by PAGEMODE, BitFieldCell dropping unchanged values"),
 'U': ("a member or table that is read before it is ever written for SOME construction/usage order (an uninitialised field whose first read depends on heap or stack garbage), anywhere in src/ or include/ — so that two Teakra instances given the same calls can behave differently depending on what the allocator returned",
       "e.g. a new member without an initialiser that only Reset sets (and the facade does not call Reset for that component at construction), a std::array of PODs left default-initialised, a bool flag tested in a destructor-like/cleanup path, padding copied with memcpy and compared. It must be observable through the public API or guest-visible state, not only under a sanitizer. Do NOT reuse: DSP memory without zero-fill, ar/arp shadow banks, ICU vector arrays"),
 'G': ("undefined behaviour or an out-of-range access that a GUEST PROGRAM (or a host MMIO write with every value inside its field width) can reach in a RARELY USED instruction or addressing mode of src/interpreter.h (modulo / bit-reverse stepping, exp/norm, shifts by register, movp/movd program-memory moves, pacr, vtr*, min/max, bank/ar/arp pseudo-registers, stack forms), src/bit.h, src/common_types.h, or the register-number decoding of src/operand.h — the emulator must end such an execution cleanly or by its own assertion, never by UB",
       "e.g. an assertion relaxed or moved after the access, a table indexed by a field that is one bit wider than the table, a shift amount or bit count that can reach the type width, signed overflow in address arithmetic, an enum value without a switch case falling into the next array. Do NOT reuse: DMA fast path past the array, ShiftBus40 at 40, AHBM linear FIFO, tstb imm16, pop prpage, channel select >= 8"),
 'P': ("a defect in the ORDER in which several peripherals and the core act inside one cycle or at one coincidence: two timers expiring in the same cycle, a timer expiry coinciding with an audio frame boundary, a DMA started by a guest store in the cycle a timer fires, an interrupt requested in the very cycle the core goes idle or wakes, a mailbox write in the cycle its interrupt is acknowledged (src/core_timing.h registration order, src/teakra.cpp wiring, src/timer.cpp, src/btdmp.cpp, src/dma.cpp, src/icu.h, Interpreter::Run)",
       "e.g. iteration order over callbacks changed, an expiry detected with > instead of >= so that coincidences slip one cycle, two requests in one cycle collapsing into one, a 'changed' flag shared between two peripherals. Do NOT reuse: Timer::Skip off-by-one after reload, GetMaxSkip cast, UpdateMMIO hoisting, Btdmp full flag / phase while disabled"),
}
for k, (area, ideas) in areas.items():
    os.makedirs(f'/tmp/o6-{k}', exist_ok=True)
    t = f"""# Task (you play a careless or subtle maintainer of wwylele/teakra, an emulator of the XpertTeak DSP)

Work ONLY in your scratch git worktree /tmp/w6-{k} and in /tmp/o6-{k}. Do not read or touch /repo, /verif or any other directory under /tmp.

The project is supposed to satisfy (among others) these properties:

{plist}

Your assignment: {area}.

Produce ONE realistic source change of that kind that BREAKS at least one of the properties above while (a) still compiling and (b) still passing the project's existing test suite unchanged. It must look like something a maintainer could plausibly commit (refactor gone slightly wrong, optimisation, off-by-one at an edge, reordering, forgotten field, narrowed type, caching, a fix for one case that breaks another) — not sabotage with magic constants — {ideas}. It must need something SPECIFIC to manifest (a particular sequence of operations, configuration, interleaving, slicing, reset or interrupt at a particular point, an unusual value, or two cooperating sites that each look fine alone), not something ordinary use would expose at once. Make it as hard to notice as you can while still being a real violation of a stated property (not of something the properties do not say). State which property (or properties) it breaks.

Earlier attempts (by others) already used the following ideas; do something different from all of them:
{earlier}

Build and run the existing tests (offline; fresh build directory):
  cd /tmp/w6-{k} && cmake -G Ninja -B _build_x -DCMAKE_BUILD_TYPE=RelWithDebInfo -DTEAKRA_BUILD_TOOLS=OFF >/dev/null && cmake --build _build_x --target teakra_tests && ./_build_x/tests/teakra_tests
All test cases must still pass with your change.

{ENC}

Also produce a DEMONSTRATION: a small standalone C++ program that FAILS (non-zero exit) with your change applied and PASSES (exit 0) on the unchanged tree; build: {BUILD}. If your change is a data race, build the demo with clang++ -fsanitize=thread (TSAN_OPTIONS=halt_on_error=1:exitcode=66) instead. Verify both directions yourself.

Deliver in /tmp/o6-{k}/ :
  patch.diff        `git diff` of your change against the worktree's HEAD (library sources only)
  demo.cpp + build_and_run.sh   run from the worktree root; build_and_run.sh takes the demo's directory from the environment variable OUT (default /tmp/o6-{k}), writes the binary there and exits with the demo's exit status
  notes.md          what the change is, which property it breaks and why, what it needs in order to manifest, what you observed (tests passing with the change; demo failing with it and passing without it)
Leave the worktree with your change REVERTED (clean `git status` apart from untracked build directories). Finish with a short summary that names the broken property.
"""
    open(f'/tmp/o6-{k}/TASK.md', 'w').write(t)

print("briefs:", len(areas))
