#!/bin/bash
# usage: tools/refactor_eval.sh <id> <agent-out-dir>
# A behaviour-preserving refactoring written by an independent sub-agent must NOT raise any alarm:
# confirms it compiles and passes the baseline tests in a scratch copy, then applies it to /repo, runs
# every check's quick command, and undoes it. Writes refactors/<id>/{patch.diff,notes.md,meta.json,check_*.log}.
set -u
ID=$1; SRC=$2
D=/verif/refactors/$ID; mkdir -p $D
cp $SRC/patch.diff $D/; cp $SRC/notes.md $D/ 2>/dev/null
S=$(mktemp -d /tmp/teakra-refac-XXXXXX); trap 'rm -rf "$S"' EXIT
rsync -a --exclude _build --exclude .git /repo/ $S/repo/
(cd $S/repo && patch -p1 -s < $D/patch.diff) || { echo "PATCH-FAILED"; exit 3; }
tests=FAIL; TEAKRA_REPO=$S/repo BASELINE_BUILD_DIR=$S/bl /verif/tools/baseline.sh > $S/bl.log 2>&1 && tests=pass
if [ "$(git -C /repo status --porcelain --untracked-files=no | wc -l)" != 0 ]; then echo "/repo is dirty; refusing"; exit 9; fi
git -C /repo apply $D/patch.diff
results=""; alarms=0
for P in C06 C07 C08 C09 C11 C12 C13 C14 C15 C16 C17 C18 C19; do
  mkdir -p $S/ev $S/replays
  VERIF_EVIDENCE_DIR=$S/ev VERIF_REPLAY_DIR=$S/replays /verif/check $P > $D/check_$P.log 2>&1; rc=$?
  [ $rc != 0 ] && alarms=$((alarms+1)) && cp $S/replays/*.plan $D/ 2>/dev/null
  results="$results\"$P\":$rc,"
  echo "$ID: check $P -> exit $rc"
done
git -C /repo checkout -- .
python3 - <<PY
import json
json.dump({"id":"$ID","kind":"behaviour-preserving refactoring by an independent sub-agent","baseline_tests":"$tests","alarms":$alarms,
 "check_exit_codes":{${results%,}},"what_was_run":"tools/refactor_eval.sh: git -C /repo apply, every ./check Cxx (quick, VERIF_SEED=1), git -C /repo checkout -- ."},open("$D/meta.json","w"),indent=1)
PY
echo "$ID: baseline=$tests alarms=$alarms"
